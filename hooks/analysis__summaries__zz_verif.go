//go:build verif

package summaries

// VerifStdPackages exposes the private table of predefined standard-library summaries (read-only use by /verif's C09
// check: exhaustive signature conformance needs the entries whose key resolves to no function).
func VerifStdPackages() map[string]map[string]Summary { return stdPackages }

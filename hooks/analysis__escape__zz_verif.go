//go:build verif

package escape

import (
	"fmt"
	"sort"
	"strings"

	"github.com/awslabs/ar-go-tools/analysis/dataflow"
	"golang.org/x/tools/go/ssa"
)

// This file is added by /verif's overlay only (build tag verif). It exposes package-private pieces of the escape
// analysis to the C15 check: graph construction over a chosen node universe, canonical forms, the transfer function
// and a block-worklist driver with an external chooser. It changes no existing behaviour.

// VerifUniverse is a small node universe for explicit-state exploration of the graph lattice.
type VerifUniverse struct {
	ng    *NodeGroup
	Nodes []*Node
	Names []string
}

// VerifNewUniverse creates one node per requested kind ("var", "alloc", "param", "load", "global").
func VerifNewUniverse(kinds []string) *VerifUniverse {
	u := &VerifUniverse{ng: NewNodeGroup(newGlobalNodeGroup())}
	for i, k := range kinds {
		var kind nodeKind
		switch k {
		case "var":
			kind = KindVar
		case "alloc":
			kind = KindAlloc
		case "param":
			kind = KindParam
		case "load":
			kind = KindLoad
		case "global":
			kind = KindGlobal
		default:
			panic("kind " + k)
		}
		u.Nodes = append(u.Nodes, u.ng.NewNode(kind, fmt.Sprintf("%s%d", k, i), nil))
		u.Names = append(u.Names, fmt.Sprintf("%s%d", k, i))
	}
	return u
}

// Empty returns the empty graph over the universe.
func (u *VerifUniverse) Empty() *EscapeGraph { return NewEmptyEscapeGraph(u.ng) }

// VerifAddEdge applies the real AddEdge.
func (u *VerifUniverse) VerifAddEdge(g *EscapeGraph, i, j int, internal bool) {
	f := EdgeExternal
	if internal {
		f = EdgeInternal
	}
	g.AddEdge(u.Nodes[i], u.Nodes[j], f)
}

// VerifRaise applies the real MergeNodeStatus (1 = Escaped, 2 = Leaked).
func (u *VerifUniverse) VerifRaise(g *EscapeGraph, i int, status int) {
	g.AddNode(u.Nodes[i])
	g.MergeNodeStatus(u.Nodes[i], EscapeStatus(status), dataflow.NewBaseRationale("verif"))
}

// VerifCanon is a canonical rendering of a graph: sorted (src,dst,flags) triples and (node,status) pairs.
func VerifCanon(g *EscapeGraph) string {
	var parts []string
	for src, outs := range g.edges {
		for dst, f := range outs {
			if f != 0 {
				parts = append(parts, fmt.Sprintf("e%d>%d:%d", src.number, dst.number, f))
			}
		}
	}
	for n, s := range g.status {
		parts = append(parts, fmt.Sprintf("s%d=%d", n.number, s))
	}
	sort.Strings(parts)
	return strings.Join(parts, " ")
}

// VerifJoin returns a fresh graph g ⊔ h computed with the real Merge.
func VerifJoin(g, h *EscapeGraph) *EscapeGraph {
	r := g.Clone()
	r.Merge(h)
	return r
}

// VerifLeq is the real ordering.
func VerifLeq(g, h *EscapeGraph) bool { ok, _ := g.LessEqual(h); return ok }

// VerifFunction is a handle on the per-function analysis state after the whole-program analysis converged.
type VerifFunction struct {
	ea *functionAnalysisState
}

// VerifFunctions returns the summarised functions of a finished escape analysis.
func VerifFunctions(state *dataflow.AnalyzerState) []*VerifFunction {
	impl, ok := state.EscapeAnalysisState.(*escapeAnalysisImpl)
	if !ok {
		return nil
	}
	var out []*VerifFunction
	for _, ea := range impl.summaries {
		if ea.summaryType == "summarize" && !ea.overflow && len(ea.function.Blocks) > 0 {
			out = append(out, &VerifFunction{ea})
		}
	}
	sort.Slice(out, func(i, j int) bool { return out[i].ea.function.String() < out[j].ea.function.String() })
	return out
}

// Name is the function's name.
func (v *VerifFunction) Name() string { return v.ea.function.String() }

// NumBlocks is the number of basic blocks.
func (v *VerifFunction) NumBlocks() int { return len(v.ea.function.Blocks) }

func (v *VerifFunction) blockInput(bb *ssa.BasicBlock, ends map[*ssa.BasicBlock]*EscapeGraph) *EscapeGraph {
	g := NewEmptyEscapeGraph(v.ea.nodes)
	if len(bb.Preds) == 0 {
		g.Merge(v.ea.initialGraph)
	} else {
		for _, pred := range bb.Preds {
			if pg := ends[pred]; pg != nil {
				g.Merge(pg)
			}
		}
	}
	return g
}

// VerifMonotonicity checks, for every instruction of the function, T(g) <= T(w) for the graph g that arises at the
// instruction at the fixpoint and every weakening w of g by at most `depth` steps (add one internal edge between existing
// nodes, raise one status). It returns violations and the number of (g,w) instances checked.
func (v *VerifFunction) VerifMonotonicity(depth int, maxPerInstr int) (viol []string, instances int) {
	ea := v.ea
	for _, bb := range ea.function.Blocks {
		g := v.blockInput(bb, ea.blockEnd)
		for _, instr := range bb.Instrs {
			pre := g.Clone()
			base := pre.Clone()
			ea.transferFunction(instr, base)
			// enumerate weakenings
			var nodes []*Node
			for n := range pre.status {
				nodes = append(nodes, n)
			}
			sort.Slice(nodes, func(i, j int) bool { return nodes[i].number < nodes[j].number })
			count := 0
			var weaken func(w *EscapeGraph, d int, desc string)
			weaken = func(w *EscapeGraph, d int, desc string) {
				if count >= maxPerInstr {
					return
				}
				if d > 0 {
					if !VerifLeq(pre, w) {
						viol = append(viol, fmt.Sprintf("%s: weakening %s is not >= the original graph (harness)", v.Name(), desc))
						return
					}
					out := w.Clone()
					func() {
						defer func() {
							if r := recover(); r != nil {
								out = nil // the transfer function rejected an ill-typed weakening: not judged
							}
						}()
						ea.transferFunction(instr, out)
					}()
					if out != nil {
						instances++
						count++
						if ok, why := base.LessEqual(out); !ok {
							viol = append(viol, fmt.Sprintf("%s: at %q: g <= w (w = g + %s) but T(g) !<= T(w): %s", v.Name(), instr.String(), desc, why))
						}
					}
				}
				if d == depth {
					return
				}
				for _, n := range nodes {
					for s := EscapeStatus(1); s <= Leaked; s++ {
						if w.status[n] < s {
							w2 := w.Clone()
							w2.MergeNodeStatus(n, s, dataflow.NewBaseRationale("verif"))
							weaken(w2, d+1, fmt.Sprintf("%s status(%v)=%d", desc, n, s))
						}
					}
				}
				for _, a := range nodes {
					for _, b := range nodes {
						if a.kind == KindGlobalVar || b.kind == KindVar || b.kind == KindParamVar || b.kind == KindGlobalVar || b.kind == KindReturn {
							continue // variables are not pointed to
						}
						if w.edges[a][b]&EdgeInternal != 0 {
							continue
						}
						if w.IsSubnode(b) {
							continue
						}
						w2 := w.Clone()
						w2.AddEdge(a, b, EdgeInternal)
						if !verifWellTyped(w2) {
							continue // only well-typed weakenings
						}
						weaken(w2, d+1, fmt.Sprintf("%s edge(%v->%v)", desc, a, b))
					}
				}
			}
			weaken(pre, 0, "")
			ea.transferFunction(instr, g)
		}
	}
	return
}

// VerifOrderIndependence explores ALL worklist orders of the block-level chaotic iteration (explicit-state search,
// states = (graphs at block ends, worklist)), using the real ProcessBlock, with callee summaries fixed at their final
// value. Every terminal state must equal the fixpoint the tool computed. Returns violations, states, transitions.
func (v *VerifFunction) VerifOrderIndependence(maxStates int) (viol []string, states, transitions int, capped bool) {
	ea := v.ea
	ref := map[*ssa.BasicBlock]*EscapeGraph{}
	for b, g := range ea.blockEnd {
		ref[b] = g
	}
	savedWL := ea.worklist
	defer func() { ea.blockEnd = ref; ea.worklist = savedWL }()
	blocks := ea.function.Blocks
	type st struct {
		ends map[*ssa.BasicBlock]*EscapeGraph
		wl   []int
	}
	key := func(s st) string {
		var sb strings.Builder
		for _, b := range blocks {
			if g := s.ends[b]; g != nil {
				sb.WriteString(VerifCanon(g))
			} else {
				sb.WriteString("-")
			}
			sb.WriteString("|")
		}
		wl := append([]int(nil), s.wl...)
		sort.Ints(wl)
		sb.WriteString(fmt.Sprint(wl))
		return sb.String()
	}
	init := st{ends: map[*ssa.BasicBlock]*EscapeGraph{}, wl: []int{0}}
	seen := map[string]bool{key(init): true}
	queue := []st{init}
	for len(queue) > 0 {
		s := queue[0]
		queue = queue[1:]
		states++
		if states > maxStates {
			capped = true
			return
		}
		if len(s.wl) == 0 {
			for _, b := range blocks {
				rg, sg := ref[b], s.ends[b]
				if (rg == nil) != (sg == nil) || (rg != nil && (!rg.Matches(sg) || VerifCanon(rg) != VerifCanon(sg))) {
					viol = append(viol, fmt.Sprintf("%s: a worklist order ends with a different graph at the end of block %d than the tool's order", v.Name(), b.Index))
					break
				}
			}
			continue
		}
		for k, bi := range s.wl {
			ends := map[*ssa.BasicBlock]*EscapeGraph{}
			for b, g := range s.ends {
				ends[b] = g
			}
			ea.blockEnd = ends
			changed := ea.ProcessBlock(blocks[bi])
			transitions++
			wl := append(append([]int(nil), s.wl[:k]...), s.wl[k+1:]...)
			if changed {
				for _, succ := range blocks[bi].Succs {
					found := false
					for _, x := range wl {
						if x == succ.Index {
							found = true
						}
					}
					if !found {
						wl = append(wl, succ.Index)
					}
				}
			}
			ns := st{ends: ends, wl: wl}
			kk := key(ns)
			if !seen[kk] {
				seen[kk] = true
				queue = append(queue, ns)
			}
		}
	}
	return
}

func verifWellTyped(g *EscapeGraph) (ok bool) {
	defer func() {
		if r := recover(); r != nil {
			ok = false // the type checker of escape graphs cannot even compare these types
		}
	}()
	return TypecheckEscapeGraph(g) == nil
}

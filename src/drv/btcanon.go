package drv

import (
	"fmt"
	"sort"
	"strings"

	"github.com/awslabs/ar-go-tools/analysis/backtrace"
	"github.com/awslabs/ar-go-tools/analysis/config"
	df "github.com/awslabs/ar-go-tools/analysis/dataflow"
	"golang.org/x/tools/go/ssa"
)

func btCallee(n df.GraphNode) string {
	if n == nil {
		return "nil"
	}
	i := df.Instr(n)
	if c, ok := i.(ssa.CallInstruction); ok && c != nil {
		if f := c.Common().StaticCallee(); f != nil {
			return f.Name()
		}
		if c.Common().IsInvoke() {
			return "invoke." + c.Common().Method.Name()
		}
		return "dyn"
	}
	return ""
}

// RunBacktraceCanon runs the backtrace analysis and returns a canonical rendering of its result for determinism
// comparison: per entry point (backtrace-point callee, argument index) the SET of trace endpoints (node kind and callee of
// the first node of each trace) - the number of traces and their internal order are not part of it.
func RunBacktraceCanon(l *Loaded, onDemand bool) (out string) {
	defer func() {
		if r := recover(); r != nil {
			out = fmt.Sprintf("panic=%q", fmt.Sprint(r))
		}
	}()
	cfg, err := LoadConfig(BacktraceYaml(onDemand))
	if err != nil {
		return "config: " + err.Error()
	}
	res, err := backtrace.Analyze(config.NewLogGroup(cfg), cfg, l.Prog, nil)
	e := err != nil
	var entries []string
	for entry, traces := range res.Traces {
		key := fmt.Sprintf("%T:%s", entry, btCallee(entry))
		if a, ok := entry.(*df.CallNodeArg); ok {
			key += fmt.Sprintf("@arg%d", a.Index())
		}
		ends := map[string]bool{}
		for _, tr := range traces {
			if len(tr) == 0 {
				ends["<empty>"] = true
				continue
			}
			ends[fmt.Sprintf("%T:%s", tr[0].GraphNode, btCallee(tr[0].GraphNode))] = true
		}
		var es []string
		for k := range ends {
			es = append(es, k)
		}
		sort.Strings(es)
		entries = append(entries, key+"<-{"+strings.Join(es, ",")+"}")
	}
	sort.Strings(entries)
	return fmt.Sprintf("traces=%v err=%v", entries, e)
}

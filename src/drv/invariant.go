package drv

import (
	"fmt"
	"sort"
	"strings"

	df "github.com/awslabs/ar-go-tools/analysis/dataflow"
	"golang.org/x/tools/go/ssa"
)

// GraphViolation is one failed clause of the C17 invariant.
type GraphViolation struct {
	Kind string `json:"kind"`
	Msg  string `json:"msg"`
}

func allNodes(fg *df.InterProceduralFlowGraph) []df.GraphNode {
	var ns []df.GraphNode
	for _, s := range fg.Summaries {
		if s == nil {
			continue
		}
		s.ForAllNodes(func(n df.GraphNode) { ns = append(ns, n) })
	}
	return ns
}

// CheckGraph evaluates the bidirectional-consistency invariant over the public accessors of the flow graph.
// Returns the violations, the number of clause instances evaluated and the number of inter-procedural links seen.
func CheckGraph(fg *df.InterProceduralFlowGraph, st *df.AnalyzerState) (viol []GraphViolation, evals int, links int) {
	add := func(kind, f string, a ...any) {
		if len(viol) < 40 {
			viol = append(viol, GraphViolation{Kind: kind, Msg: fmt.Sprintf(f, a...)})
		}
	}
	nodes := allNodes(fg)
	for _, n := range nodes {
		for m, infos := range n.Out() {
			evals++
			in, ok := m.In()[n]
			if !ok {
				add("out-without-in", "%s -> %s is an out-edge but not an in-edge of the target", n.LongID(), m.LongID())
				continue
			}
			found := false
			idx := map[int]bool{}
			for _, e := range infos {
				idx[e.Index] = true
				if e.Index == in.Index {
					found = true
				}
			}
			if !found {
				add("index-mismatch", "%s -> %s: in-edge has tuple index %d, out-edges have %v", n.LongID(), m.LongID(), in.Index, keysInt(idx))
			} else if len(idx) > 1 {
				add("index-lost", "%s -> %s: out-edges carry tuple indices %v but the single in-edge only %d", n.LongID(), m.LongID(),
					keysInt(idx), in.Index)
			}
		}
		for m := range n.In() {
			evals++
			if _, ok := m.Out()[n]; !ok {
				add("in-without-out", "%s <- %s is an in-edge but not an out-edge of the source", n.LongID(), m.LongID())
			}
		}
	}
	for f, s := range fg.Summaries {
		if s == nil {
			continue
		}
		for _, callees := range s.Callees {
			for _, cn := range callees {
				if cn.CalleeSummary == nil {
					continue
				}
				links++
				evals++
				reg := cn.CalleeSummary.Callsites[cn.CallSite()]
				if reg == nil {
					add("callsite-not-registered", "call node %s in %s is linked to the summary of %s, which does not list the call site",
						cn.LongID(), f.String(), cn.CalleeSummary.Parent.String())
				} else if reg != cn && !(reg.CallSite() == cn.CallSite() && reg.Callee() == cn.Callee()) {
					add("callsite-other-node", "summary of %s lists another node for call site of %s", cn.CalleeSummary.Parent.String(), cn.LongID())
				}
			}
		}
		for site, cn := range s.Callsites {
			evals++
			if cn == nil {
				add("callsite-nil", "summary of %s has a nil call node for %v", f.String(), site)
				continue
			}
			if cn.CalleeSummary != s {
				// pre-summarized and interface-contract graphs may be shared by several callees; identity by parent
				if cn.CalleeSummary == nil || cn.CalleeSummary.Parent != s.Parent {
					add("callsite-dangling", "summary of %s lists call node %s whose CalleeSummary is %v", f.String(), cn.LongID(),
						parentName(cn.CalleeSummary))
				}
			}
		}
		for instr, cl := range s.CreatedClosures {
			if cl.ClosureSummary == nil {
				// every closure-creation node must be registered with the closure's summary as soon as that summary exists
				if mc, ok := instr.(*ssa.MakeClosure); ok {
					if fn, ok := mc.Fn.(*ssa.Function); ok {
						if want := fg.Summaries[fn]; want != nil {
							evals++
							add("closure-not-linked", "closure node %s in %s is not linked although a summary of %s exists", cl.LongID(), f.String(),
								fn.String())
						}
					}
				}
				continue
			}
			links++
			evals++
			if cl.ClosureSummary.ReferringMakeClosures[instr] != cl {
				add("closure-not-registered", "closure node %s is not among ReferringMakeClosures of %s", cl.LongID(),
					cl.ClosureSummary.Parent.String())
			}
		}
		for instr, cl := range s.ReferringMakeClosures {
			evals++
			if cl == nil || cl.ClosureSummary != s {
				add("closure-dangling", "summary of %s lists a referring closure at %v whose ClosureSummary differs", f.String(), instr)
			}
		}
	}
	// globals
	if st != nil {
		wantW := map[*df.GlobalNode]map[df.GraphNode]bool{}
		wantR := map[*df.GlobalNode]map[df.GraphNode]bool{}
		for _, s := range fg.Summaries {
			if s == nil || !s.Constructed {
				continue
			}
			for _, group := range s.AccessGlobalNodes {
				for _, a := range group {
					if a.IsWrite {
						if wantW[a.Global] == nil {
							wantW[a.Global] = map[df.GraphNode]bool{}
						}
						wantW[a.Global][a] = true
					} else if len(a.Out()) > 0 {
						if wantR[a.Global] == nil {
							wantR[a.Global] = map[df.GraphNode]bool{}
						}
						wantR[a.Global][a] = true
					}
				}
			}
		}
		for g, gn := range st.Globals {
			evals++
			if !sameNodeSet(gn.WriteLocations, wantW[gn]) {
				add("global-write-locs", "global %s: WriteLocations has %d nodes, constructed summaries have %d write accesses", g.Name(),
					len(gn.WriteLocations), len(wantW[gn]))
			}
			if !sameNodeSet(gn.ReadLocations, wantR[gn]) {
				add("global-read-locs", "global %s: ReadLocations has %d nodes, constructed summaries have %d read accesses with out-edges",
					g.Name(), len(gn.ReadLocations), len(wantR[gn]))
			}
		}
	}
	return
}

func parentName(s *df.SummaryGraph) string {
	if s == nil || s.Parent == nil {
		return "<nil>"
	}
	return s.Parent.String()
}

func sameNodeSet(a, b map[df.GraphNode]bool) bool {
	if len(a) != len(b) {
		return false
	}
	for k := range a {
		if !b[k] {
			return false
		}
	}
	return true
}

func keysInt(m map[int]bool) []int {
	var out []int
	for k := range m {
		out = append(out, k)
	}
	sort.Ints(out)
	return out
}

// CanonGraph renders the flow graph canonically (independent of node ids and map order): per constructed function, the
// sorted list of edges between node descriptions, plus the inter-procedural links.
func CanonGraph(fg *df.InterProceduralFlowGraph) string {
	desc := func(n df.GraphNode) string {
		p := ""
		if n.Graph() != nil && n.Graph().Parent != nil {
			p = n.Graph().Parent.String()
		}
		k := strings.TrimSpace(df.NodeKind(n))
		extra := ""
		if i := df.Instr(n); i != nil {
			extra = fmt.Sprint(i.Pos())
		}
		if ix, ok := n.(df.IndexedGraphNode); ok {
			extra += fmt.Sprintf("#%d", ix.Index())
		}
		if a, ok := n.(*df.AccessGlobalNode); ok {
			extra += fmt.Sprintf("g:%s:w=%v", a.Global.Type(), a.IsWrite)
		}
		return p + "/" + k + "/" + extra
	}
	var lines []string
	for f, s := range fg.Summaries {
		if s == nil {
			continue
		}
		lines = append(lines, fmt.Sprintf("S %s constructed=%v", f.String(), s.Constructed))
		s.ForAllNodes(func(n df.GraphNode) {
			for m, infos := range n.Out() {
				idx := map[int]bool{}
				for _, e := range infos {
					idx[e.Index] = true
				}
				lines = append(lines, fmt.Sprintf("E %s -> %s %v", desc(n), desc(m), keysInt(idx)))
			}
		})
		for _, callees := range s.Callees {
			for fn, cn := range callees {
				lines = append(lines, fmt.Sprintf("L %s calls %s linked=%v", desc(cn), fn.String(), cn.CalleeSummary != nil))
			}
		}
		for _, cl := range s.CreatedClosures {
			lines = append(lines, fmt.Sprintf("C %s closure linked=%v", desc(cl), cl.ClosureSummary != nil))
		}
	}
	sort.Strings(lines)
	// de-duplicate
	var out []string
	for i, l := range lines {
		if i == 0 || l != lines[i-1] {
			out = append(out, l)
		}
	}
	return strings.Join(out, "\n")
}

// UserFunctions lists the functions of the main package (and its closures) that have summaries.
func UserFunctions(l *Loaded, fg *df.InterProceduralFlowGraph) []*ssa.Function {
	var fs []*ssa.Function
	seen := map[*ssa.Function]bool{}
	var addAnon func(f *ssa.Function)
	addAnon = func(f *ssa.Function) {
		for _, a := range f.AnonFuncs {
			if !seen[a] {
				seen[a] = true
				fs = append(fs, a) // closures that are never called have no summary yet: building them is a lattice transition too
			}
			addAnon(a)
		}
	}
	for f := range fg.Summaries {
		if f.Package() == l.Main || (f.Parent() != nil && f.Parent().Package() == l.Main) {
			if !seen[f] {
				seen[f] = true
				fs = append(fs, f)
			}
			addAnon(f)
		}
	}
	sort.Slice(fs, func(i, j int) bool { return fs[i].String() < fs[j].String() })
	return fs
}

package drv

import (
	"fmt"
	"strings"
	"time"

	"github.com/awslabs/ar-go-tools/analysis/backtrace"
	"github.com/awslabs/ar-go-tools/analysis/config"
	"github.com/awslabs/ar-go-tools/analysis/dataflow"
	"github.com/awslabs/ar-go-tools/analysis/defers"
	"github.com/awslabs/ar-go-tools/analysis/escape"
	"github.com/awslabs/ar-go-tools/analysis/maypanic"
	"github.com/awslabs/ar-go-tools/analysis/reachability"
)

// Outcome is the result of one analysis entry point on one program.
type Outcome struct {
	Name  string `json:"name"`
	Panic string `json:"panic,omitempty"`
	Stack string `json:"stack,omitempty"`
	Err   string `json:"err,omitempty"`
	Ms    int64  `json:"ms"`
}

func guard(name string, f func() error) (o Outcome) {
	o.Name = name
	t := time.Now()
	defer func() {
		o.Ms = time.Since(t).Milliseconds()
		if r := recover(); r != nil {
			o.Panic = fmt.Sprint(r)
			o.Stack = panicStack()
		}
	}()
	if err := f(); err != nil {
		o.Err = err.Error()
		if len(o.Err) > 300 {
			o.Err = o.Err[:300]
		}
	}
	return
}

// BacktraceYaml is the slicing configuration used for generated programs: sinks are the backtrace points.
func BacktraceYaml(onDemand bool) string {
	y := "options:\n  log-level: 1\n  silence-warn: true\n"
	if onDemand {
		y += "  summarize-on-demand: true\n"
	}
	y += "slicing-problems:\n  - backtracepoints:\n      - package: \"zsubj\"\n        method: \"^Sinkv?[0-9]$\"\n"
	return y
}

// AnalysisNames lists the entry points exercised by RunAll, in order.
var AnalysisNames = []string{"taint", "taint+od", "taint+fs", "taint+esc", "taint+esc+od", "backtrace", "backtrace+od", "escape",
	"reach", "reach-nomain", "reach-noinit", "reach-none", "defers", "maypanic"}

// RunAll runs every analysis entry point on a fresh load of src. load is called once per entry point.
func RunAll(load func() (*Loaded, error), before func(name string), after func()) ([]Outcome, error) {
	var out []Outcome
	taintCfgs := map[string]Cfg{"taint": {}, "taint+od": {OnDemand: true}, "taint+fs": {FieldSensitive: true},
		"taint+esc": {Escape: true}, "taint+esc+od": {Escape: true, OnDemand: true}}
	for _, name := range AnalysisNames {
		l, err := load()
		if err != nil {
			return nil, err
		}
		before(name)
		switch {
		case strings.HasPrefix(name, "taint"):
			c := taintCfgs[name]
			t := time.Now()
			r, _ := RunTaint(l, c)
			out = append(out, Outcome{Name: name, Panic: r.Panic, Stack: r.Stack, Err: trunc(r.Err, 300), Ms: time.Since(t).Milliseconds()})
		case strings.HasPrefix(name, "backtrace"):
			out = append(out, guard(name, func() error {
				cfg, err := LoadConfig(BacktraceYaml(name == "backtrace+od"))
				if err != nil {
					return err
				}
				_, err = backtrace.Analyze(config.NewLogGroup(cfg), cfg, l.Prog, nil)
				return err
			}))
		case name == "escape":
			out = append(out, guard(name, func() error {
				cfg, err := LoadConfig(Cfg{}.Yaml())
				if err != nil {
					return err
				}
				st, err := dataflow.NewInitializedAnalyzerState(l.Prog, nil, config.NewLogGroup(cfg), cfg)
				if err != nil {
					return err
				}
				return escape.InitializeEscapeAnalysisState(st)
			}))
		case strings.HasPrefix(name, "reach"):
			out = append(out, guard(name, func() error {
				cfg, err := LoadConfig(Cfg{}.Yaml())
				if err != nil {
					return err
				}
				st, err := dataflow.NewInitializedAnalyzerState(l.Prog, nil, config.NewLogGroup(cfg), cfg)
				if err != nil {
					return err
				}
				exMain := name == "reach-nomain" || name == "reach-none"
				exInit := name == "reach-noinit" || name == "reach-none"
				reachability.FindReachable(st, exMain, exInit, nil)
				return nil
			}))
		case name == "defers":
			out = append(out, guard(name, func() error {
				cfg, _ := LoadConfig(Cfg{}.Yaml())
				defers.AnalyzeProgram(l.Prog, config.NewLogGroup(cfg))
				return nil
			}))
		case name == "maypanic":
			out = append(out, guard(name, func() error {
				maypanic.MayPanicAnalyzer(l.Prog, nil, false)
				return nil
			}))
		}
		after()
	}
	return out, nil
}

func trunc(s string, n int) string {
	if len(s) > n {
		return s[:n]
	}
	return s
}

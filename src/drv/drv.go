// Package drv drives the real analyzers on subject programs (engine P, DESIGN.md §2.2, §3.4).
package drv

import (
	"fmt"
	"go/ast"
	"go/importer"
	"go/parser"
	"go/token"
	"go/types"
	"io"
	"log"
	"os"
	"regexp"
	"runtime/debug"
	"sort"
	"strings"

	"github.com/awslabs/ar-go-tools/analysis/config"
	"github.com/awslabs/ar-go-tools/analysis/taint"
	"github.com/awslabs/ar-go-tools/internal/zzverif/gen"
	"golang.org/x/tools/go/ssa"
)

// Loaded is a subject program loaded in-process.
type Loaded struct {
	Prog *ssa.Program
	Main *ssa.Package
	RT   *ssa.Package
	Fset *token.FileSet
}

var stdImporter = importer.ForCompiler(token.NewFileSet(), "source", nil)

type mapImporter map[string]*types.Package

func (m mapImporter) Import(path string) (*types.Package, error) {
	if p, ok := m[path]; ok {
		return p, nil
	}
	return nil, fmt.Errorf("package %q not available in-process", path)
}

func checkPkg(fset *token.FileSet, path, name, src string, imp types.Importer) (*types.Package, *ast.File, *types.Info, error) {
	f, err := parser.ParseFile(fset, name, src, parser.ParseComments)
	if err != nil {
		return nil, nil, nil, err
	}
	info := &types.Info{
		Types:      map[ast.Expr]types.TypeAndValue{},
		Defs:       map[*ast.Ident]types.Object{},
		Uses:       map[*ast.Ident]types.Object{},
		Implicits:  map[ast.Node]types.Object{},
		Instances:  map[*ast.Ident]types.Instance{},
		Scopes:     map[ast.Node]*types.Scope{},
		Selections: map[*ast.SelectorExpr]*types.Selection{},
	}
	conf := types.Config{Importer: imp}
	pkg, err := conf.Check(path, fset, []*ast.File{f}, info)
	if err != nil {
		return nil, nil, nil, err
	}
	return pkg, f, info, nil
}

// LoadInProcess type-checks and SSA-builds an import-free (except rt) subject program.
// mainSrc must be a complete file of package main importing gen.RTPath.
func LoadInProcess(mainSrc string, rtSrc string) (*Loaded, error) {
	return LoadInProcessExtra(mainSrc, rtSrc, nil)
}

// ExtraPkg is an additional source package of an in-process subject (it may import rt only).
type ExtraPkg struct{ Path, Src string }

// LoadInProcessExtra is LoadInProcess with additional library packages importable from main.
func LoadInProcessExtra(mainSrc string, rtSrc string, extra []ExtraPkg) (*Loaded, error) {
	fset := token.NewFileSet()
	rtPkg, rtFile, rtInfo, err := checkPkg(fset, gen.RTPath, "rt.go", rtSrc, mapImporter{})
	if err != nil {
		return nil, fmt.Errorf("rt: %w", err)
	}
	imp := mapImporter{gen.RTPath: rtPkg}
	type built struct {
		pkg  *types.Package
		file *ast.File
		info *types.Info
	}
	var extras []built
	for _, e := range extra {
		p, f, i, err := checkPkg(fset, e.Path, strings.ReplaceAll(e.Path, "/", "_")+".go", e.Src, imp)
		if err != nil {
			return nil, fmt.Errorf("%s: %w", e.Path, err)
		}
		imp[e.Path] = p
		extras = append(extras, built{p, f, i})
	}
	var syncPkg *types.Package
	var syncFile *ast.File
	var syncInfo *types.Info
	if strings.Contains(mainSrc, "\"sync\"") {
		// a minimal stand-in for package sync (same path and method names, so the predefined summaries apply)
		syncPkg, syncFile, syncInfo, err = checkPkg(fset, "sync", "sync.go", FakeSync, mapImporter{})
		if err != nil {
			return nil, fmt.Errorf("sync: %w", err)
		}
		imp["sync"] = syncPkg
	}
	mPkg, mFile, mInfo, err := checkPkg(fset, gen.MainPath, "main.go", mainSrc, imp)
	if err != nil {
		return nil, fmt.Errorf("main: %w", err)
	}
	prog := ssa.NewProgram(fset, ssa.InstantiateGenerics|ssa.BuildSerially)
	if syncPkg != nil {
		prog.CreatePackage(syncPkg, []*ast.File{syncFile}, syncInfo, true)
	}
	rt := prog.CreatePackage(rtPkg, []*ast.File{rtFile}, rtInfo, true)
	for _, b := range extras {
		prog.CreatePackage(b.pkg, []*ast.File{b.file}, b.info, true)
	}
	m := prog.CreatePackage(mPkg, []*ast.File{mFile}, mInfo, false)
	prog.Build()
	return &Loaded{Prog: prog, Main: m, RT: rt, Fset: fset}, nil
}

// MainSource assembles the analysed file of a generated program.
func MainSource(p *gen.Prog, prefix string) string {
	body, shared := p.Render(prefix)
	return "package main\n\nimport \"" + gen.RTPath + "\"\n\n" + gen.SharedText(shared) + body + gen.AnalysisMain(prefix)
}

// Cfg is one soundness-preserving configuration vector of the taint analysis.
type Cfg struct {
	FieldSensitive bool
	OnDemand       bool
	PkgFilter      string // "", "main" (matches), "nomatch"
	Escape         bool
	MaxAlarms      int
	Extra          string // extra yaml option lines
	Sanitizers     bool
	Validators     bool
}

func (c Cfg) String() string {
	return fmt.Sprintf("fs=%v od=%v pf=%q esc=%v ma=%d%s", c.FieldSensitive, c.OnDemand, c.PkgFilter, c.Escape, c.MaxAlarms,
		strings.ReplaceAll(c.Extra, "\n", ";"))
}

// Yaml renders the configuration the way a user would write it.
func (c Cfg) Yaml() string {
	var sb strings.Builder
	sb.WriteString("options:\n")
	sb.WriteString("  log-level: 1\n")
	sb.WriteString("  silence-warn: true\n")
	if c.FieldSensitive {
		sb.WriteString("  field-sensitive: true\n")
	}
	if c.OnDemand {
		sb.WriteString("  summarize-on-demand: true\n")
	}
	switch c.PkgFilter {
	case "main":
		sb.WriteString("  pkg-filter: \"zsubj/.*\"\n")
	case "nomatch":
		sb.WriteString("  pkg-filter: \"qqnomatch\"\n")
	}
	if c.Escape {
		sb.WriteString("  use-escape-analysis: true\n")
	}
	if c.MaxAlarms != 0 {
		fmt.Fprintf(&sb, "  max-alarms: %d\n", c.MaxAlarms)
	}
	sb.WriteString(c.Extra)
	sb.WriteString("taint-tracking-problems:\n  - sources:\n      - package: \"zsubj\"\n        method: \"^[sS]ource[A-Z]?[0-9]$\"\n")
	sb.WriteString("    sinks:\n      - package: \"zsubj\"\n        method: \"^Sinkv?[0-9]$\"\n")
	if c.Sanitizers {
		sb.WriteString("    sanitizers:\n      - package: \"zsubj\"\n        method: \"^Sanitize[0-9]$\"\n")
	}
	if c.Validators {
		sb.WriteString("    validators:\n      - package: \"zsubj\"\n        method: \"^ValidateE?[0-9]$\"\n")
	}
	return sb.String()
}

// TaintResult is the canonical outcome of one taint run.
type TaintResult struct {
	Flows   []string // "S1>1"
	Escapes []string // source ids with an escape
	Err     string
	Panic   string
	Stack   string `json:",omitempty"`
}

var digitsRe = regexp.MustCompile(`([0-9])$`)

func SiteID(instr ssa.Instruction) string {
	if c, ok := instr.(ssa.CallInstruction); ok {
		name := ""
		if c.Common().IsInvoke() {
			name = c.Common().Method.Name()
		} else if f := c.Common().StaticCallee(); f != nil {
			name = f.Name()
		} else {
			name = c.Common().Value.Name()
		}
		if m := digitsRe.FindStringSubmatch(name); m != nil {
			return m[1]
		}
		return "?" + name
	}
	return "?" + instr.String()
}

func init() {
	log.SetOutput(io.Discard)
}

// LoadConfig parses the yaml with the tool's own loader.
func LoadConfig(yaml string) (*config.Config, error) {
	return config.Load("verif-config.yaml", []byte(yaml))
}

// RunTaint runs the real taint analysis; panics in the calling goroutine are caught and reported.
func RunTaint(l *Loaded, c Cfg) (res TaintResult, raw *taint.AnalysisResult) {
	return RunTaintYaml(l, c.Yaml())
}

// RunTaintYaml is RunTaint for an explicit yaml configuration.
func RunTaintYaml(l *Loaded, yamlText string) (res TaintResult, raw *taint.AnalysisResult) {
	defer func() {
		if r := recover(); r != nil {
			res.Panic = fmt.Sprint(r)
			res.Stack = panicStack()
		}
	}()
	cfg, err := LoadConfig(yamlText)
	if err != nil {
		res.Err = "config: " + err.Error()
		return
	}
	ar, err := taint.Analyze(cfg, l.Prog, nil)
	if err != nil {
		res.Err = err.Error()
	}
	if ar.TaintFlows != nil {
		fl := map[string]bool{}
		for snk, srcs := range ar.TaintFlows.Sinks {
			for src := range srcs {
				fl["S"+SiteID(src.Instr)+">"+SiteID(snk.Instr)] = true
			}
		}
		for f := range fl {
			res.Flows = append(res.Flows, f)
		}
		sort.Strings(res.Flows)
		es := map[string]bool{}
		for _, srcs := range ar.TaintFlows.Escapes {
			for src := range srcs {
				es["S"+SiteID(src)] = true
			}
		}
		for f := range es {
			res.Escapes = append(res.Escapes, f)
		}
		sort.Strings(res.Escapes)
	}
	return res, &ar
}

// Quiet redirects the process' stdout-bound logging of the analyzers (they print through config loggers).
func Quiet() {
	devnull, err := os.OpenFile(os.DevNull, os.O_WRONLY, 0)
	if err == nil {
		_ = devnull
	}
}

// panicStack returns the frames below the panic call, truncated.
func panicStack() string { return PanicStack() }

// PanicStack returns the frames below the panic call, truncated.
func PanicStack() string {
	st := string(debug.Stack())
	if i := strings.Index(st, "panic("); i >= 0 {
		st = st[i:]
	}
	if len(st) > 1500 {
		st = st[:1500]
	}
	return st
}

// FakeSync is a minimal stand-in for package sync for in-process loading of concurrent subjects.
const FakeSync = `package sync

type Mutex struct{ state int32 }

func (m *Mutex) Lock()   { m.state = 1 }
func (m *Mutex) Unlock() { m.state = 0 }

type WaitGroup struct{ n int32 }

func (w *WaitGroup) Add(d int) { w.n += int32(d) }
func (w *WaitGroup) Done()     { w.n-- }
func (w *WaitGroup) Wait()     {}
`

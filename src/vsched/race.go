package vsched

import (
	"fmt"
	"sort"
)

// VC is a vector clock: goroutine id -> logical time. It is advanced only by the program's own synchronisation
// (spawn, channel send->receive, close->receive, Unlock->Lock, Done->Wait), never by scheduler hand-offs.
type VC map[int]int

func (v VC) copy() VC {
	c := VC{}
	for k, x := range v {
		c[k] = x
	}
	return c
}
func (v VC) tick(id int) { v[id]++ }
func (v VC) join(o VC) {
	for k, x := range o {
		if x > v[k] {
			v[k] = x
		}
	}
}

// leq reports v <= o pointwise.
func (v VC) leq(o VC) bool {
	for k, x := range v {
		if x > o[k] {
			return false
		}
	}
	return true
}

type access struct {
	g     int
	vc    VC
	write bool
	site  string
}

type raceState struct {
	last map[any][]access
	reps map[string]bool
}

func newRaceState() *raceState { return &raceState{last: map[any][]access{}, reps: map[string]bool{}} }

func (r *raceState) reports() []string {
	var out []string
	for k := range r.reps {
		out = append(out, k)
	}
	sort.Strings(out)
	return out
}

// Acc records an access to a shared location (identified by loc, e.g. an address or a map identity) and reports a data
// race when it is unordered by happens-before with a previous conflicting access. It is also a scheduling point.
func Acc(loc any, write bool, site string) {
	s := active
	if s == nil {
		return
	}
	s.point(&op{kind: "acc", obj: loc, desc: "acc " + site, enabled: func() bool { return true }})
	me := s.cur
	me.vc.tick(me.id)
	for _, a := range s.race.last[loc] {
		if a.g == me.id || (!a.write && !write) {
			continue
		}
		if !a.vc.leq(me.vc) {
			x, y := a.site, site
			if y < x {
				x, y = y, x
			}
			s.race.reps[fmt.Sprintf("race on %v between %s and %s", locName(loc), x, y)] = true
		}
	}
	s.race.last[loc] = append(s.race.last[loc], access{g: me.id, vc: me.vc.copy(), write: write, site: site})
}

// AccessLog is filled by AccLog: (site, goroutine, location) triples of one execution.
type AccessEvent struct {
	Site string
	G    int
	Loc  string
	W    bool
}

func locName(loc any) string { return fmt.Sprintf("%v", loc) }

// MapID identifies a map for access logging (its header address).
func MapID[K comparable, V any](m map[K]V) string { return fmt.Sprintf("map:%p", m) }

// AccLog is a scheduling point that logs an access to a location from the current goroutine (C13/C14 subjects).
func AccLog(line int, loc any, write bool) {
	s := active
	if s == nil {
		return
	}
	s.point(&op{kind: "acc", obj: loc, desc: fmt.Sprintf("acc line %d", line), enabled: func() bool { return true }})
	name := ""
	switch x := loc.(type) {
	case string:
		name = x
	default:
		name = fmt.Sprintf("%p", x)
	}
	s.exec.AccLog = append(s.exec.AccLog, AccessEvent{Site: fmt.Sprint(line), G: s.cur.id, Loc: name, W: write})
	s.keep = append(s.keep, loc) // keep objects alive: equal address means same object within one execution
}

// Package vsched is the controlled scheduler of engine S (DESIGN.md §4): every logical goroutine is a real goroutine
// parked on its own channel; exactly one runs at a time; a scheduling point precedes every hooked operation (spawn,
// channel send/receive/close, Mutex, WaitGroup, atomic, instrumented memory access, environment answer). The explorer is
// a stateless depth-first search over choice sequences with iterative preemption bounding.
package vsched

import (
	"fmt"
	"runtime"
	"runtime/debug"
	"sort"
	"strings"
)

// op is the operation a goroutine is about to perform at its current scheduling point.
type op struct {
	kind    string       // "start", "send", "recv", "close", "lock", "unlock", "wg.add", "wg.wait", "atomic", "acc", "env", "spawn"
	obj     any          // channel / mutex / waitgroup identity
	enabled func() bool  // may the operation proceed now?
	desc    string
}

type gor struct {
	id      int
	resume  chan bool // true = proceed, false = abort (Goexit)
	pending *op
	done    bool
	vc      VC
	name    string
	// rendezvous hand-off for unbuffered channels
	recvDone bool
	recvVal  any
	recvOK   bool
}

// Point is one scheduling decision of an execution.
type Point struct {
	Enabled []int  // goroutine ids, canonical order: the running goroutine first if still enabled, then ascending
	Chosen  int    // index into Enabled
	Running int    // id of the goroutine that was running before this point (-1 at start)
	Desc    string // operation of the chosen goroutine
}

// Exec is the record of one execution.
type Exec struct {
	Points    []Point
	Choices   []int
	Deadlock  bool
	Blocked   []string // descriptions of goroutines blocked forever (deadlock or leak)
	Leaked    int      // goroutines still blocked after main returned and everything else ran to quiescence
	Races     []string
	Panic     string
	Steps     int
	Diverged  bool // replay prefix did not match (nondeterminism the harness does not own)
	Horizon   bool
	TraceHash string
	AccLog    []AccessEvent
	MapSites  map[string]int // map-range site -> largest number of keys iterated
	MapTies   int            // keys the stable ordering could not distinguish (uncontrolled order)
}

// Sched is one controlled execution.
type Sched struct {
	gs      []*gor
	cur     *gor
	yield   chan *gor
	prefix  []int
	exec    *Exec
	horizon int
	env     map[string]int
	aborted bool
	race    *raceState
	keep    []any
	pinned  map[string]any
}

var active *Sched

// Active reports whether a controlled execution is running.
func Active() bool { return active != nil }

func (s *Sched) newGor(name string, parent *gor) *gor {
	g := &gor{id: len(s.gs), resume: make(chan bool), name: name, vc: VC{}}
	if parent != nil {
		g.vc = parent.vc.copy()
	}
	g.vc.tick(g.id)
	s.gs = append(s.gs, g)
	return g
}

// point parks the calling goroutine at a scheduling point until the scheduler resumes it.
func (s *Sched) point(o *op) {
	g := s.cur
	g.pending = o
	s.yield <- g
	if ok := <-g.resume; !ok {
		runtime.Goexit()
	}
	g.pending = nil
}

// Point is a plain scheduling point (always enabled).
func PointAt(kind, desc string) {
	s := active
	if s == nil {
		return
	}
	s.point(&op{kind: kind, enabled: func() bool { return true }, desc: desc})
}

// Go spawns a logical goroutine.
func Go(f func()) {
	s := active
	if s == nil {
		go f()
		return
	}
	parent := s.cur
	s.point(&op{kind: "spawn", enabled: func() bool { return true }, desc: "go"})
	g := s.newGor(fmt.Sprintf("g%d", len(s.gs)), parent)
	parent.vc.tick(parent.id)
	g.pending = &op{kind: "start", enabled: func() bool { return true }, desc: "start"}
	go func() {
		if ok := <-g.resume; !ok {
			return
		}
		g.pending = nil
		defer func() {
			if r := recover(); r != nil {
				s.exec.Panic = fmt.Sprintf("goroutine %d: %v\n%s", g.id, r, debug.Stack())
			}
			g.done = true
			if !s.aborted {
				s.yield <- g
			}
		}()
		f()
	}()
}

// Env returns an environment answer chosen by the explorer configuration (e.g. "NumCPU").
func Env(name string, def int) int {
	s := active
	if s == nil {
		return def
	}
	if v, ok := s.env[name]; ok {
		return v
	}
	return def
}

func (s *Sched) enabledList(running int) []int {
	var en []int
	for _, g := range s.gs {
		if !g.done && g.pending != nil && g.pending.enabled() {
			en = append(en, g.id)
		}
	}
	sort.Ints(en)
	// canonical order: running goroutine first if still enabled
	for i, id := range en {
		if id == running && i != 0 {
			copy(en[1:i+1], en[0:i])
			en[0] = running
			break
		}
	}
	return en
}

// Run executes body under the scheduler, replaying prefix and then always taking choice 0.
func Run(body func(), prefix []int, horizon int, env map[string]int) *Exec {
	s := &Sched{yield: make(chan *gor), prefix: prefix, exec: &Exec{}, horizon: horizon, env: env, race: newRaceState()}
	active = s
	defer func() { active = nil }()
	main := s.newGor("main", nil)
	main.pending = &op{kind: "start", enabled: func() bool { return true }, desc: "start"}
	go func() {
		if ok := <-main.resume; !ok {
			return
		}
		main.pending = nil
		defer func() {
			if r := recover(); r != nil {
				s.exec.Panic = fmt.Sprintf("main: %v", r)
			}
			main.done = true
			if !s.aborted {
				s.yield <- main
			}
		}()
		body()
	}()
	running := -1
	var trace []string
	for {
		en := s.enabledList(running)
		if len(en) == 0 {
			break
		}
		if s.exec.Steps >= horizon {
			s.exec.Horizon = true
			break
		}
		choice := 0
		i := len(s.exec.Points)
		if i < len(prefix) {
			choice = prefix[i]
			if choice >= len(en) {
				s.exec.Diverged = true
				break
			}
		}
		g := s.gs[en[choice]]
		s.exec.Points = append(s.exec.Points, Point{Enabled: en, Chosen: choice, Running: running, Desc: g.pending.desc})
		s.exec.Choices = append(s.exec.Choices, choice)
		trace = append(trace, fmt.Sprintf("%d:%s", g.id, g.pending.kind))
		s.exec.Steps++
		s.cur = g
		running = g.id
		g.resume <- true
		<-s.yield // the goroutine reached its next point or finished
	}
	// classify what is left
	for _, g := range s.gs {
		if !g.done {
			d := "?"
			if g.pending != nil {
				d = g.pending.desc
			}
			s.exec.Blocked = append(s.exec.Blocked, fmt.Sprintf("g%d blocked at %s", g.id, d))
		}
	}
	if len(s.exec.Blocked) > 0 && !s.exec.Horizon && !s.exec.Diverged {
		if !main.done {
			s.exec.Deadlock = true
		} else {
			s.exec.Leaked = len(s.exec.Blocked)
		}
	}
	// release parked goroutines
	s.aborted = true
	for _, g := range s.gs {
		if !g.done && g.pending != nil {
			select {
			case g.resume <- false:
			default:
			}
		}
	}
	s.exec.Races = s.race.reports()
	s.exec.TraceHash = strings.Join(trace, " ")
	return s.exec
}

// Preemptions counts the preemptions among the first n points: switching away from a still-enabled running goroutine.
func (e *Exec) Preemptions(n int) int {
	c := 0
	for i := 0; i < n && i < len(e.Points); i++ {
		p := e.Points[i]
		if p.Running >= 0 && len(p.Enabled) > 0 && p.Enabled[0] == p.Running && p.Chosen != 0 {
			c++
		}
	}
	return c
}

// Explorer is the stateless DFS with iterative preemption bounding.
type Explorer struct {
	Body     func() // must build fresh state on every call
	Bound    int    // maximum number of preemptions; <0 = unbounded
	Horizon  int
	Env      map[string]int
	Check    func(*Exec) string // "" = fine, else a violation description
	MaxExecs int

	Execs      int
	Transitions int
	Capped     bool
	Violation  string
	ViolExec   *Exec
	Outcomes   map[string]int
	States     map[uint64]bool // hashes of the distinct scheduling-point prefixes seen (states of the exploration tree)
}

// Explore runs the search; returns false when a violation was found.
func (x *Explorer) Explore() bool {
	if x.Outcomes == nil {
		x.Outcomes = map[string]int{}
	}
	if x.States == nil {
		x.States = map[uint64]bool{}
	}
	if x.Horizon == 0 {
		x.Horizon = 5000
	}
	return x.explore(nil)
}

func (x *Explorer) explore(prefix []int) bool {
	if x.MaxExecs > 0 && x.Execs >= x.MaxExecs {
		x.Capped = true
		return true
	}
	e := Run(x.Body, prefix, x.Horizon, x.Env)
	x.Execs++
	x.Transitions += len(e.Points)
	if e.Diverged {
		x.Violation = "DIVERGED: replay of a recorded prefix did not match (nondeterminism outside the scheduler)"
		x.ViolExec = e
		return false
	}
	// states: prefixes of the trace
	h := uint64(14695981039346656037) // FNV-1a, updated token by token: one 8-byte key per prefix instead of the prefix text
	for _, t := range strings.Split(e.TraceHash, " ") {
		for i := 0; i < len(t); i++ {
			h ^= uint64(t[i])
			h *= 1099511628211
		}
		h ^= ' '
		h *= 1099511628211
		x.States[h] = true
	}
	if msg := x.Check(e); msg != "" {
		x.Violation = msg
		x.ViolExec = e
		return false
	}
	for i := len(prefix); i < len(e.Points); i++ {
		p := e.Points[i]
		cost := e.Preemptions(i)
		preempting := p.Running >= 0 && len(p.Enabled) > 0 && p.Enabled[0] == p.Running
		for alt := 1; alt < len(p.Enabled); alt++ {
			c := cost
			if preempting {
				c++
			}
			if x.Bound >= 0 && c > x.Bound {
				continue
			}
			np := append(append([]int{}, e.Choices[:i]...), alt)
			if !x.explore(np) {
				return false
			}
		}
	}
	return true
}

package vsched

import (
	"fmt"
	"reflect"
	"sort"
)

// Entry is one key of a map iteration under the map-order seam; the lookup is live.
type Entry[K comparable, V any] struct {
	Key  K
	m    map[K]V
	site string
}

// Get returns the current value of the key (ok = false when the entry was deleted during the iteration).
func (e Entry[K, V]) Get() (V, bool) {
	if s := active; s != nil && s.env["mapacc"] == 1 {
		id := MapID(e.m)
		s.keepAlive(id, e.m)
		Acc(id, false, e.site)
	}
	v, ok := e.m[e.Key]
	return v, ok
}

// MapAcc is the race probe of a map write (inserted by the typed rewriter before `m[k] = v` and delete(m, k)).
func MapAcc[M ~map[K]V, K comparable, V any](m M, site string, write bool) {
	if s := active; s != nil && s.env["mapacc"] == 1 {
		id := MapID(map[K]V(m))
		s.keepAlive(id, m)
		Acc(id, write, site)
	}
}

// stableKey renders a map key structurally (never by address) so that runs are reproducible.
func stableKey(k any) (key string) {
	defer func() {
		if r := recover(); r != nil {
			key = fmt.Sprintf("!:%T", k) // a String()/LongID() method that cannot handle this value (e.g. a typed nil)
		}
	}()
	if k == nil {
		return "nil"
	}
	if rv := reflect.ValueOf(k); (rv.Kind() == reflect.Pointer || rv.Kind() == reflect.Interface || rv.Kind() == reflect.Map ||
		rv.Kind() == reflect.Func) && rv.IsNil() {
		return fmt.Sprintf("nil:%T", k)
	}
	switch x := k.(type) {
	case interface{ LongID() string }:
		return "N:" + x.LongID()
	case interface {
		Parent() interface{ String() string }
	}:
		_ = x
	}
	if s, ok := k.(fmt.Stringer); ok {
		extra := ""
		if p, ok := k.(interface{ Pos() interface{ IsValid() bool } }); ok {
			_ = p
		}
		return fmt.Sprintf("S:%T:%s%s", k, s.String(), extra)
	}
	v := reflect.ValueOf(k)
	switch v.Kind() {
	case reflect.String:
		return "s:" + v.String()
	case reflect.Int, reflect.Int8, reflect.Int16, reflect.Int32, reflect.Int64:
		return fmt.Sprintf("i:%020d", v.Int())
	case reflect.Uint, reflect.Uint8, reflect.Uint16, reflect.Uint32, reflect.Uint64:
		return fmt.Sprintf("u:%020d", v.Uint())
	case reflect.Bool:
		return fmt.Sprintf("b:%v", v.Bool())
	case reflect.Struct:
		s := "{"
		for i := 0; i < v.NumField(); i++ {
			f := v.Field(i)
			if f.CanInterface() {
				s += stableKey(f.Interface()) + ","
			} else {
				s += fmt.Sprintf("%v,", f)
			}
		}
		return s + "}"
	case reflect.Pointer, reflect.Interface:
		if v.IsNil() {
			return "nil"
		}
		return fmt.Sprintf("P:%T", k) // no structural information: ties are counted
	}
	return fmt.Sprintf("?:%T", k)
}

// StableKeyHook lets the worker install a better key function for the analyzer's types.
var StableKeyHook func(k any) (string, bool)

// Iter replaces `range m`: the keys present at loop entry, ordered by the policy the explorer assigned to this site.
func Iter[M ~map[K]V, K comparable, V any](m M, site string) []Entry[K, V] {
	out := make([]Entry[K, V], 0, len(m))
	for k := range m {
		out = append(out, Entry[K, V]{Key: k, m: m, site: site})
	}
	s := active
	if s == nil || len(out) < 2 {
		if s != nil && len(out) > 0 {
			s.noteSite(site, len(out), 0)
		}
		return out
	}
	keys := make([]string, len(out))
	for i, e := range out {
		if StableKeyHook != nil {
			if k, ok := StableKeyHook(any(e.Key)); ok {
				keys[i] = k
				continue
			}
		}
		keys[i] = stableKey(any(e.Key))
	}
	idx := make([]int, len(out))
	for i := range idx {
		idx[i] = i
	}
	sort.SliceStable(idx, func(a, b int) bool { return keys[idx[a]] < keys[idx[b]] })
	ties := 0
	for i := 1; i < len(idx); i++ {
		if keys[idx[i]] == keys[idx[i-1]] {
			ties++
		}
	}
	s.noteSite(site, len(out), ties)
	policy, ok := s.env["order:"+site]
	if !ok {
		policy = s.env["order:*"]
	}
	sorted := make([]Entry[K, V], len(out))
	for i, j := range idx {
		sorted[i] = out[j]
	}
	switch policy {
	case 1: // descending
		for i, j := 0, len(sorted)-1; i < j; i, j = i+1, j-1 {
			sorted[i], sorted[j] = sorted[j], sorted[i]
		}
	case 2: // rotate by one
		sorted = append(sorted[1:], sorted[0])
	}
	return sorted
}

func (s *Sched) noteSite(site string, n, ties int) {
	if s.exec.MapSites == nil {
		s.exec.MapSites = map[string]int{}
	}
	if n > s.exec.MapSites[site] {
		s.exec.MapSites[site] = n
	}
	s.exec.MapTies += ties
}

// keepAlive pins a probed object for the rest of the execution: an address identifies one object only while it lives.
func (s *Sched) keepAlive(id string, obj any) {
	if s.pinned == nil {
		s.pinned = map[string]any{}
	}
	if _, ok := s.pinned[id]; !ok {
		s.pinned[id] = obj
	}
}

package vsched

import "fmt"

// Chan is the controlled replacement of `chan T`.
type Chan[T any] struct {
	cap    int
	buf    []T
	closed bool
	real   chan T // passthrough when no scheduler is active
	vc     VC     // happens-before carried by the channel
	name   string
}

// MakeChan replaces make(chan T, n).
func MakeChan[T any](n int) *Chan[T] {
	c := &Chan[T]{cap: n, vc: VC{}}
	if active == nil {
		c.real = make(chan T, n)
	}
	return c
}

func (c *Chan[T]) pendingReceiver() *gor {
	s := active
	for _, g := range s.gs {
		if !g.done && g.pending != nil && g.pending.kind == "recv" && g.pending.obj == any(c) && !g.recvDone {
			return g
		}
	}
	return nil
}

// Send replaces c <- v.
func (c *Chan[T]) Send(v T) {
	s := active
	if s == nil {
		c.real <- v
		return
	}
	me := s.cur
	s.point(&op{kind: "send", obj: c, desc: fmt.Sprintf("send %p", c), enabled: func() bool {
		if c.closed {
			return true // will panic, like the real operation
		}
		if c.cap > 0 {
			return len(c.buf) < c.cap
		}
		return c.pendingReceiver() != nil
	}})
	if c.closed {
		panic("send on closed channel")
	}
	me.vc.tick(me.id)
	c.vc.join(me.vc)
	if c.cap > 0 {
		c.buf = append(c.buf, v)
		return
	}
	r := c.pendingReceiver()
	r.recvVal, r.recvOK, r.recvDone = v, true, true
	r.vc.join(me.vc)
}

// Recv2 replaces v, ok := <-c.
func (c *Chan[T]) Recv2() (T, bool) {
	s := active
	if s == nil {
		v, ok := <-c.real
		return v, ok
	}
	me := s.cur
	me.recvDone = false
	s.point(&op{kind: "recv", obj: c, desc: fmt.Sprintf("recv %p", c), enabled: func() bool {
		if me.recvDone {
			return true
		}
		if len(c.buf) > 0 || c.closed {
			return true
		}
		return false
	}})
	var zero T
	if me.recvDone {
		me.recvDone = false
		v, _ := me.recvVal.(T)
		me.recvVal = nil
		return v, me.recvOK
	}
	if len(c.buf) > 0 {
		v := c.buf[0]
		c.buf = c.buf[1:]
		me.vc.join(c.vc)
		return v, true
	}
	// closed and empty
	me.vc.join(c.vc)
	return zero, false
}

// Recv replaces <-c.
func (c *Chan[T]) Recv() T {
	v, _ := c.Recv2()
	return v
}

// Close replaces close(c).
func (c *Chan[T]) Close() {
	s := active
	if s == nil {
		close(c.real)
		return
	}
	me := s.cur
	s.point(&op{kind: "close", obj: c, desc: fmt.Sprintf("close %p", c), enabled: func() bool { return true }})
	if c.closed {
		panic("close of closed channel")
	}
	c.closed = true
	me.vc.tick(me.id)
	c.vc.join(me.vc)
}

// Len replaces len(c).
func (c *Chan[T]) Len() int {
	if active == nil {
		return len(c.real)
	}
	return len(c.buf)
}

// SelectRecv2 replaces a select statement with two receive cases and no default (`select { case a := <-ca: ...;
// case b := <-cb: ... }`) over BUFFERED channels. It is one scheduling point, enabled when one of the channels can
// deliver; when both can, the first case is taken (the interleavings in which only one channel is ready exercise
// both cases). Returns the index of the case taken and the received values.
func SelectRecv2[A, B any](ca *Chan[A], cb *Chan[B]) (idx int, a A, b B) {
	s := active
	if s == nil {
		select {
		case a = <-ca.real:
			return 0, a, b
		case b = <-cb.real:
			return 1, a, b
		}
	}
	me := s.cur
	ready := func() int {
		if len(ca.buf) > 0 || ca.closed {
			return 0
		}
		if len(cb.buf) > 0 || cb.closed {
			return 1
		}
		return -1
	}
	s.point(&op{kind: "select", obj: ca, desc: fmt.Sprintf("select %p %p", ca, cb), enabled: func() bool { return ready() >= 0 }})
	switch ready() {
	case 0:
		if len(ca.buf) > 0 {
			a = ca.buf[0]
			ca.buf = ca.buf[1:]
		}
		me.vc.join(ca.vc)
		return 0, a, b
	default:
		if len(cb.buf) > 0 {
			b = cb.buf[0]
			cb.buf = cb.buf[1:]
		}
		me.vc.join(cb.vc)
		return 1, a, b
	}
}

package vsched

import (
	"fmt"
	"runtime"
	"sync"
	"sync/atomic"
)

// Mutex is the controlled replacement of sync.Mutex.
type Mutex struct {
	locked bool
	real   sync.Mutex
	vc     VC
}

// Lock blocks (as a scheduling decision) until the mutex is free.
func (m *Mutex) Lock() {
	s := active
	if s == nil {
		m.real.Lock()
		return
	}
	me := s.cur
	s.point(&op{kind: "lock", obj: m, desc: fmt.Sprintf("lock %p", m), enabled: func() bool { return !m.locked }})
	m.locked = true
	if m.vc != nil {
		me.vc.join(m.vc)
	}
}

// Unlock releases the mutex.
func (m *Mutex) Unlock() {
	s := active
	if s == nil {
		m.real.Unlock()
		return
	}
	me := s.cur
	s.point(&op{kind: "unlock", obj: m, desc: fmt.Sprintf("unlock %p", m), enabled: func() bool { return true }})
	if !m.locked {
		panic("unlock of unlocked mutex")
	}
	m.locked = false
	me.vc.tick(me.id)
	if m.vc == nil {
		m.vc = VC{}
	}
	m.vc.join(me.vc)
}

// WaitGroup is the controlled replacement of sync.WaitGroup.
type WaitGroup struct {
	n    int
	real sync.WaitGroup
	vc   VC
}

// Add adds delta to the counter.
func (w *WaitGroup) Add(delta int) {
	s := active
	if s == nil {
		w.real.Add(delta)
		return
	}
	me := s.cur
	s.point(&op{kind: "wg.add", obj: w, desc: fmt.Sprintf("wg.add %p %d", w, delta), enabled: func() bool { return true }})
	w.n += delta
	if w.n < 0 {
		panic("negative WaitGroup counter")
	}
	if delta < 0 {
		me.vc.tick(me.id)
		if w.vc == nil {
			w.vc = VC{}
		}
		w.vc.join(me.vc)
	}
}

// Done decrements the counter.
func (w *WaitGroup) Done() { w.Add(-1) }

// Wait blocks until the counter is zero.
func (w *WaitGroup) Wait() {
	s := active
	if s == nil {
		w.real.Wait()
		return
	}
	me := s.cur
	s.point(&op{kind: "wg.wait", obj: w, desc: fmt.Sprintf("wg.wait %p", w), enabled: func() bool { return w.n == 0 }})
	if w.vc != nil {
		me.vc.join(w.vc)
	}
}

// AddUint32 replaces atomic.AddUint32 (a scheduling point; atomics on one address are totally ordered).
func AddUint32(addr *uint32, delta uint32) uint32 {
	s := active
	if s == nil {
		return atomic.AddUint32(addr, delta)
	}
	s.point(&op{kind: "atomic", obj: addr, desc: "atomic.add", enabled: func() bool { return true }})
	*addr += delta
	return *addr
}

// Int32 replaces atomic.Int32.
type Int32 struct {
	v    int32
	real atomic.Int32
}

// Add atomically adds delta and returns the new value.
func (i *Int32) Add(delta int32) int32 {
	s := active
	if s == nil {
		return i.real.Add(delta)
	}
	s.point(&op{kind: "atomic", obj: i, desc: "atomic.Int32.Add", enabled: func() bool { return true }})
	i.v += delta
	return i.v
}

// Load atomically loads the value.
func (i *Int32) Load() int32 {
	s := active
	if s == nil {
		return i.real.Load()
	}
	s.point(&op{kind: "atomic", obj: i, desc: "atomic.Int32.Load", enabled: func() bool { return true }})
	return i.v
}

// NumCPU replaces runtime.NumCPU(): an environment answer chosen by the explorer.
func NumCPU() int { return Env("NumCPU", runtime.NumCPU()) }

package gen

import (
	"fmt"
	"strings"
)

// C04, second family: the identifier kinds other than calls (type = allocation source, field = field-read source,
// field + kind "store" = field-write sink, type + kind "channel receive" = receive source) and value-match on calls.
// Every program has one target site and decoy sites (other field of the same type, the same field of another type,
// the same field of a similarly named type); the reference matcher is plain regexp on the facts (package, type
// rendering, field, kind) the generator knows. A pattern whose verdict depends on a rendering choice the
// documentation leaves open (pointer prefix of the type, package name vs path) makes the site UNJUDGED.

const cidKindLib = `
type Data struct{ Secret, Public, Out, Other string }
type DataX struct{ Secret, Out string }
type Rec struct{ Secret, Out string }
type Hold struct {
	D Data
	C chan Data
}

func MkData() Data    { return Data{} }
func MkDataX() DataX  { return DataX{} }
func MkRec() Rec      { return Rec{} }
func MkDataP() *Data  { return &Data{} }
func MkDataXP() *DataX { return &DataX{} }
func MkRecP() *Rec    { return &Rec{} }
func Put2(k string, x string) {}
func GetK(k string) string { return "" }
func (Src) Put2(k string, x string) {}
func (Src) GetK(k string) string { return "" }
`

type kindSite struct {
	id    string   // observing id
	pkg   []string // admissible package renderings (name, path)
	typ   []string // admissible type renderings
	field string
	kind  string
	ctx   string
	value string // constant-argument text for value-match
}

type kindSpec struct{ Package, Type, Field, Kind, Context, ValueMatch, Method string }

// verdict: 1 matched, 0 not matched, -1 unjudged (renderings disagree)
func (s kindSpec) verdict(site kindSite) int {
	if s.Kind != site.kind {
		return 0
	}
	agree := func(pat string, facts []string) int {
		if pat == "" {
			return 1
		}
		r := -2
		for _, f := range facts {
			v := 0
			if match(pat, f) {
				v = 1
			}
			if r == -2 {
				r = v
			} else if r != v {
				return -1
			}
		}
		return r
	}
	res := 1
	for _, v := range []int{agree(s.Package, site.pkg), agree(s.Type, site.typ), agree(s.Field, []string{site.field}),
		agree(s.Context, []string{site.ctx}), agree(s.ValueMatch, []string{site.value})} {
		if v == 0 {
			return 0
		}
		if v == -1 {
			res = -1
		}
	}
	return res
}

var kindPkgPats = []string{"", "lib", "lib$", "nomatch"}

func kindTypePats(t string) []string {
	return []string{t + "$", t, "^\\*?" + t + "$", "(Rec|" + t + ")$", "Nope"}
}
func kindFieldPats(f string) []string {
	return []string{"^" + f + "$", f[1:], "^" + f[:3], "^Nope$", f + "|Zzz"}
}

var kindForms = map[string][]string{
	"alloc":    {"new", "addrLit", "addrVar"},
	"field":    {"valVar", "ptr", "param", "nested", "inClosure"},
	"store":    {"valVar", "ptr", "param", "literal", "inClosure"},
	"chanrecv": {"recvVal", "recvPtr", "commaOk", "rangeChan", "selectRecv", "chanField"},
	"vmatch":   {"sinkDirect", "sinkMethod", "sourceDirect", "sourceMethod"},
}

// CIDKinds in order.
var CIDKinds = []string{"alloc", "field", "store", "chanrecv", "vmatch"}

// EnumerateCIDKinds enumerates kind x form x pattern vector.
func EnumerateCIDKinds() []CIDCase {
	var out []CIDCase
	pkgFacts := []string{"lib", LibPath}
	for _, kind := range CIDKinds {
		for _, form := range kindForms[kind] {
			switch kind {
			case "alloc":
				for _, pp := range kindPkgPats {
					for _, tp := range kindTypePats("Data") {
						out = append(out, kindCase(kind, form, kindSpec{Package: pp, Type: tp}, pkgFacts))
					}
				}
			case "field":
				for _, pp := range kindPkgPats {
					for _, tp := range append([]string{""}, kindTypePats("Data")...) {
						for _, fp := range kindFieldPats("Secret") {
							for _, cp := range []string{"", "main", "qqq"} {
								out = append(out, kindCase(kind, form, kindSpec{Package: pp, Type: tp, Field: fp, Context: cp}, pkgFacts))
							}
						}
					}
				}
			case "store":
				for _, pp := range kindPkgPats {
					for _, tp := range append([]string{""}, kindTypePats("Data")...) {
						for _, fp := range kindFieldPats("Out") {
							out = append(out, kindCase(kind, form, kindSpec{Package: pp, Type: tp, Field: fp, Kind: "store"}, pkgFacts))
						}
					}
				}
			case "chanrecv":
				for _, pp := range kindPkgPats {
					for _, tp := range []string{"chan Data$", "Data", "chan \\*?Data$", "chan (Rec|Data)$", "Nope", "^chan \\*Data$"} {
						out = append(out, kindCase(kind, form, kindSpec{Package: pp, Type: tp, Kind: "channel receive"}, pkgFacts))
					}
				}
			case "vmatch":
				for _, vp := range []string{"", "KEY", "K.Y", "NOPE", "KEY|ZZZ"} {
					for _, pp := range []string{"", "lib"} {
						m := "^Put2$"
						if strings.HasPrefix(form, "source") {
							m = "^GetK$"
						}
						out = append(out, kindCase(kind, form, kindSpec{Package: pp, Method: m, ValueMatch: vp}, []string{LibPath}))
					}
				}
			}
		}
	}
	return out
}

func kindCase(kind, form string, spec kindSpec, pkgFacts []string) CIDCase {
	var decls, body []string
	var sites []kindSite
	role := "source"
	ptrT := func(t string) []string { return []string{"*" + t} }
	valT := func(t string) []string { return []string{t} }
	switch kind {
	case "alloc":
		mk := func(v, t string) string {
			switch form {
			case "new":
				return fmt.Sprintf("%s := new(lib.%s)", v, t)
			case "addrLit":
				return fmt.Sprintf("%s := &lib.%s{}", v, t)
			default:
				return fmt.Sprintf("var %sv lib.%s\n%s := &%sv", v, t, v, v)
			}
		}
		body = append(body, mk("p", "Data"), "rt.Sink1(p)", mk("q", "DataX"), "rt.Sink3(q)", mk("r", "Rec"), "rt.Sink4(r)")
		// "object of type T": the allocation's static type is *T; both renderings admissible
		both := func(t string) []string { return []string{t, "*" + t} }
		sites = []kindSite{{id: "1", pkg: pkgFacts, typ: both("Data"), ctx: "main"}, {id: "3", pkg: pkgFacts, typ: both("DataX"), ctx: "main"},
			{id: "4", pkg: pkgFacts, typ: both("Rec"), ctx: "main"}}
	case "field":
		ty := valT
		ctx := "main"
		switch form {
		case "valVar":
			body = append(body, "d := lib.MkData()", "v1 := d.Secret", "v3 := d.Public", "r := lib.MkRec()", "v4 := r.Secret", "x := lib.MkDataX()", "v5 := x.Secret")
			ty = func(t string) []string { return []string{t, "*" + t} } // value or address form is the compiler's choice
		case "ptr":
			body = append(body, "d := lib.MkDataP()", "v1 := d.Secret", "v3 := d.Public", "r := lib.MkRecP()", "v4 := r.Secret", "x := lib.MkDataXP()", "v5 := x.Secret")
			ty = func(t string) []string { return []string{t, "*" + t} }
		case "param":
			decls = append(decls, "func rdSecret(d *lib.Data) string { return d.Secret }", "func rdPublic(d *lib.Data) string { return d.Public }",
				"func rdRec(r *lib.Rec) string { return r.Secret }", "func rdX(x *lib.DataX) string { return x.Secret }")
			body = append(body, "v1 := rdSecret(lib.MkDataP())", "v3 := rdPublic(lib.MkDataP())", "v4 := rdRec(lib.MkRecP())", "v5 := rdX(lib.MkDataXP())")
			ty = func(t string) []string { return []string{t, "*" + t} }
			ctx = "" // the enclosing function is the helper: context patterns are judged only when empty (see below)
		case "nested":
			body = append(body, "h := &lib.Hold{}", "v1 := h.D.Secret", "v3 := h.D.Public", "r := lib.MkRecP()", "v4 := r.Secret", "x := lib.MkDataXP()", "v5 := x.Secret")
			ty = func(t string) []string { return []string{t, "*" + t} }
		case "inClosure":
			body = append(body, "d := lib.MkDataP()", "r := lib.MkRecP()", "x := lib.MkDataXP()", "var v1, v3, v4, v5 string",
				"func() {\n\tv1 = d.Secret\n\tv3 = d.Public\n\tv4 = r.Secret\n\tv5 = x.Secret\n}()")
			ty = func(t string) []string { return []string{t, "*" + t} }
		}
		body = append(body, "rt.Sink1(v1)", "rt.Sink3(v3)", "rt.Sink4(v4)", "rt.Sink5(v5)")
		sites = []kindSite{{id: "1", pkg: pkgFacts, typ: ty("Data"), field: "Secret", ctx: ctx}, {id: "3", pkg: pkgFacts, typ: ty("Data"), field: "Public", ctx: ctx},
			{id: "4", pkg: pkgFacts, typ: ty("Rec"), field: "Secret", ctx: ctx}, {id: "5", pkg: pkgFacts, typ: ty("DataX"), field: "Secret", ctx: ctx}}
	case "store":
		role = "sink"
		body = append(body, "x1 := rt.Source1()", "x3 := rt.Source3()", "x4 := rt.Source4()", "_, x5 := rt.Source2()")
		decls = append(decls, "func keep(xs ...any) {}")
		both := func(t string) []string { return []string{t, "*" + t} }
		switch form {
		case "valVar":
			body = append(body, "var d lib.Data", "var r lib.Rec", "var x lib.DataX", "d.Out = x1", "d.Other = x3", "r.Out = x4", "x.Out = x5", "keep(d, r, x)")
		case "ptr":
			body = append(body, "d := lib.MkDataP()", "r := lib.MkRecP()", "x := lib.MkDataXP()", "d.Out = x1", "d.Other = x3", "r.Out = x4", "x.Out = x5", "keep(d, r, x)")
		case "param":
			decls = append(decls, "func wrOut(d *lib.Data, s string) { d.Out = s }", "func wrOther(d *lib.Data, s string) { d.Other = s }",
				"func wrRec(r *lib.Rec, s string) { r.Out = s }", "func wrX(x *lib.DataX, s string) { x.Out = s }")
			body = append(body, "wrOut(lib.MkDataP(), x1)", "wrOther(lib.MkDataP(), x3)", "wrRec(lib.MkRecP(), x4)", "wrX(lib.MkDataXP(), x5)")
		case "literal":
			body = append(body, "d := lib.Data{Out: x1}", "d2 := lib.Data{Other: x3}", "r := lib.Rec{Out: x4}", "x := lib.DataX{Out: x5}", "keep(d, d2, r, x)")
		case "inClosure":
			body = append(body, "d := lib.MkDataP()", "r := lib.MkRecP()", "x := lib.MkDataXP()", "func() {\n\td.Out = x1\n\td.Other = x3\n\tr.Out = x4\n\tx.Out = x5\n}()", "keep(d, r, x)")
		}
		sites = []kindSite{{id: "1", pkg: pkgFacts, typ: both("Data"), field: "Out", kind: "store"}, {id: "3", pkg: pkgFacts, typ: both("Data"), field: "Other", kind: "store"},
			{id: "4", pkg: pkgFacts, typ: both("Rec"), field: "Out", kind: "store"}, {id: "2", pkg: pkgFacts, typ: both("DataX"), field: "Out", kind: "store"}}
	case "chanrecv":
		star := ""
		if form == "recvPtr" {
			star = "*"
		}
		mkc := func(v, t string) string { return fmt.Sprintf("%s := make(chan %slib.%s, 1)", v, star, t) }
		body = append(body, mkc("c1", "Data"), mkc("c3", "DataX"), mkc("c4", "Rec"))
		recv := func(dst, ch string) string {
			switch form {
			case "commaOk":
				return fmt.Sprintf("%s, ok%s := <-%s\n_ = ok%s", dst, dst, ch, dst)
			case "rangeChan":
				return fmt.Sprintf("var %s any\nfor e := range %s {\n\t%s = e\n}", dst, ch, dst)
			case "selectRecv":
				return fmt.Sprintf("var %s any\nselect {\ncase e := <-%s:\n\t%s = e\ndefault:\n}", dst, ch, dst)
			default:
				return fmt.Sprintf("%s := <-%s", dst, ch)
			}
		}
		if form == "chanField" {
			body = []string{"h := &lib.Hold{C: make(chan lib.Data, 1)}", mkc("c3", "DataX"), mkc("c4", "Rec"), "v1 := <-h.C", recv("v3", "c3"), recv("v4", "c4")}
		} else {
			body = append(body, recv("v1", "c1"), recv("v3", "c3"), recv("v4", "c4"))
		}
		body = append(body, "rt.Sink1(v1)", "rt.Sink3(v3)", "rt.Sink4(v4)")
		t := func(n string) []string { return []string{"chan " + star + n} }
		sites = []kindSite{{id: "1", pkg: pkgFacts, typ: t("Data"), kind: "channel receive"}, {id: "3", pkg: pkgFacts, typ: t("DataX"), kind: "channel receive"},
			{id: "4", pkg: pkgFacts, typ: t("Rec"), kind: "channel receive"}}
	case "vmatch":
		recvExpr := "lib."
		if strings.HasSuffix(form, "Method") {
			recvExpr = "lib.Src{}."
		}
		if strings.HasPrefix(form, "sink") {
			role = "sink"
			body = append(body, "x1 := rt.Source1()", "x3 := rt.Source3()", recvExpr+"Put2(\"KEY\", x1)", recvExpr+"Put2(\"OTHER\", x3)")
		} else {
			body = append(body, "v1 := "+recvExpr+"GetK(\"KEY\")", "v3 := "+recvExpr+"GetK(\"OTHER\")", "rt.Sink1(v1)", "rt.Sink3(v3)")
		}
		sites = []kindSite{{id: "1", pkg: pkgFacts, value: "\"KEY\""}, {id: "3", pkg: pkgFacts, value: "\"OTHER\""}}
	}
	_ = ptrT
	exp := map[string]bool{}
	for _, s := range sites {
		if spec.Context != "" && s.ctx == "" {
			continue // context of a helper: not judged
		}
		switch spec.verdict(s) {
		case 1:
			exp[s.id] = true
		case 0:
			exp[s.id] = false
		}
	}
	src := "package main\n\nimport (\n\t\"" + LibPath + "\"\n\t\"" + RTPath + "\"\n)\n\nvar _ = rt.Cond\nvar _ = lib.MkData\n\n" + strings.Join(decls, "\n") + "\n\nfunc main() {\n" + indent(strings.Join(body, "\n"), 1) + "\n}\n"
	sig := fmt.Sprintf("cidk[%s,%s,pkg=%q,type=%q,field=%q,kind=%q,ctx=%q,vm=%q]", kind, form, spec.Package, spec.Type, spec.Field, spec.Kind, spec.Context, spec.ValueMatch)
	atoms := []string{"role:" + role, "kind:" + kind, "form:" + form, "kform:" + kind + "/" + form, "family:cidkind"}
	if spec.Package == "" {
		atoms = append(atoms, "pkg-empty")
	}
	if spec.Type == "" {
		atoms = append(atoms, "type-empty")
	}
	if spec.Context != "" {
		atoms = append(atoms, "ctx-given")
	}
	if spec.ValueMatch != "" {
		atoms = append(atoms, "vm-given")
	}
	ident := [][2]string{{"package", spec.Package}, {"method", spec.Method}, {"type", spec.Type}, {"field", spec.Field}, {"kind", spec.Kind},
		{"context", spec.Context}, {"value-match", spec.ValueMatch}}
	return CIDCase{Subject: Subject{Sig: sig, Atoms: atoms, Src: src}, Lib: cidLib + cidKindLib, Role: role, Form: form, Expected: exp, Ident: ident}
}

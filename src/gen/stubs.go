package gen

// RTPath is the import path of the runtime-stub package of subject programs.
const RTPath = "zsubj/rt"

// MainPath is the package path given to a subject program loaded in-process.
const MainPath = "zsubj/main"

// AnalysisRT is the stub package the analyzer sees: same API as NativeRT, inert bodies.
const AnalysisRT = `package rt

func Source1() string           { return "" }
func Source2() (string, string) { return "", "" }
func Source3() string           { return "" }
func Source4() string           { return "" }
func Sink1(x any)               {}
func Sinkv2(a string, xs ...any) {}
func Sink3(x any)               {}
func Sink4(x any)               {}
func Sink5(x any)               {}
func Sink6(x any)               {}
func Sink7(x any)               {}
func Sink8(x any)               {}
func Cond() bool                { return false }
func Sanitize1(x string) string { return "" }
func Validate1(x any) bool      { return false }
func ValidateE1(x any) error    { return nil }
func Mk1() string               { return "" }
func Mk2() string               { return "" }
func Mk3() string               { return "" }
func Mk4() string               { return "" }
func Probe(id int, x any)       {}
func Mark[X any](k int, x X) X  { return x }
func Enter(name string)         {}
func Leave()                    {}
func GoBegin() int              { return 0 }
func GoEnd(w int)               {}
func D(k int)                   {}
func Boom()                     {}
func Wait()                     {}
`

// NativeRT is the stub package of the native rendering: token-carrying data, valuation-driven Cond, deep sink walk.
const NativeRT = `package rt

import (
	"fmt"
	"reflect"
	"regexp"
	"sort"
	"strings"
	"time"
)

// Entry registers one subject program.
type Entry struct {
	Name  string
	Main  func()
	Reset func()
}

var (
	vv      []bool
	pos     int
	flows   = map[string]bool{}
	valid   = map[string]bool{}
	tokRe   = regexp.MustCompile("(?i)tk([a-z])([0-9]+)q")
	Horizon = 6
)

func Cond() bool {
	i := pos
	pos++
	if i < len(vv) {
		return vv[i]
	}
	return false
}

func Source1() string           { return "TKS1Q" }
func Source2() (string, string) { return "clean", "TKS2Q" }
func Source3() string           { return "TKS3Q" }
func Source4() string           { return "TKS4Q" }
func Mk1() string               { return "TKM1Q" }
func Mk2() string               { return "TKM2Q" }
func Mk3() string               { return "TKM3Q" }
func Mk4() string               { return "TKM4Q" }
func Sink1(x any)               { record("1", x) }
func Sinkv2(a string, xs ...any) { record("2", a); record("2", xs) }
func Sink3(x any)               { record("3", x) }
func Sink4(x any)               { record("4", x) }
func Sink5(x any)               { record("5", x) }
func Sink6(x any)               { record("6", x) }
func Sink7(x any)               { record("7", x) }
func Sink8(x any)               { record("8", x) }
// C11: Mark(k, x) is the identity on a freshly allocated object and remembers its allocation id; Probe(id, v)
// records the run-time identity of a pointer-like value. Objects are kept alive for the whole execution.
type probeRec struct {
	id   int
	typ  string
	addr uintptr
}

var (
	probes   []probeRec
	allocOf  = map[uintptr]int{}
	keep     []any
	aliasSet = map[string]bool{}
)

func identity(v reflect.Value) (uintptr, bool) {
	switch v.Kind() {
	case reflect.Pointer, reflect.Map, reflect.Chan, reflect.Func, reflect.UnsafePointer:
		if v.IsNil() {
			return 0, false
		}
		return v.Pointer(), true
	case reflect.Slice:
		if v.IsNil() || v.Cap() == 0 {
			return 0, false
		}
		// the END of the backing array is invariant under re-slicing
		return v.Pointer() + uintptr(v.Cap())*v.Type().Elem().Size(), true
	}
	return 0, false
}

func Mark[X any](k int, x X) X {
	keep = append(keep, x)
	if a, ok := identity(reflect.ValueOf(x)); ok {
		allocOf[a] = k
	}
	return x
}

func Probe(id int, x any) {
	keep = append(keep, x)
	v := reflect.ValueOf(x)
	if !v.IsValid() {
		return
	}
	if a, ok := identity(v); ok {
		probes = append(probes, probeRec{id, v.Type().String(), a})
	}
}

func flushProbes() {
	for i, p := range probes {
		if k, ok := allocOf[p.addr]; ok {
			aliasSet[fmt.Sprintf("%d@%d", p.id, k)] = true
		}
		for _, q := range probes[i+1:] {
			if p.addr == q.addr && p.typ == q.typ && p.id != q.id {
				a, b := p.id, q.id
				if b < a {
					a, b = b, a
				}
				aliasSet[fmt.Sprintf("%d=%d", a, b)] = true
			}
		}
	}
	probes, keep = nil, nil
	allocOf = map[uintptr]int{}
}

// call-event recording for the dispatch family (C12/C18): every function starts with Enter(id); defer Leave().
var (
	cstack  []string
	events  = map[string]bool{}
	gowait  []*goWaiter
)

// goWaiter is one pending go statement: the launching goroutine blocks in GoEnd until the launched function has
// returned (its Leave brings the recorded call stack back to the depth of the go statement).
type goWaiter struct {
	depth int
	done  bool
	ch    chan bool
}

func Enter(name string) {
	caller := "<root>"
	if len(cstack) > 0 {
		caller = cstack[len(cstack)-1]
	}
	events[caller+">"+name] = true
	cstack = append(cstack, name)
}

func Leave() {
	if len(cstack) > 0 {
		cstack = cstack[:len(cstack)-1]
	}
	for i := len(gowait) - 1; i >= 0; i-- {
		if w := gowait[i]; !w.done && w.depth == len(cstack) {
			w.done = true
			w.ch <- true
			break
		}
	}
}

// GoBegin/GoEnd bracket a go statement (w := rt.GoBegin(); go f(); rt.GoEnd(w)): GoEnd blocks until the launched
// function has returned, so that the single recorded call stack stays meaningful; go statements nest.
func GoBegin() int {
	gowait = append(gowait, &goWaiter{depth: len(cstack), ch: make(chan bool, 1)})
	return len(gowait) - 1
}
func GoEnd(w int) {
	select {
	case <-gowait[w].ch:
	case <-time.After(120 * time.Second):
		gowait[w].done = true
	}
}

// Boom panics in the calling goroutine (C19); Wait gives launched goroutines time to run.
func Boom() { panic("boom") }
func Wait() { time.Sleep(300 * time.Millisecond) }

var dlog []string
var logs = map[string]bool{}

// D is the deferred function of the C16 family: it logs its id when it runs.
func D(k int) { dlog = append(dlog, fmt.Sprint(k)) }

// Sanitize1 returns a token-free string.
func Sanitize1(x string) string { return "clean" }

// Validate1 answers with the next valuation bit; when true, every token found in x counts as validated.
func Validate1(x any) bool {
	ok := Cond()
	if ok {
		for _, t := range tokens(x) {
			valid[t] = true
		}
	}
	return ok
}

// ValidateE1 is the error-returning validator: nil means valid.
func ValidateE1(x any) error {
	if Validate1(x) {
		return nil
	}
	return fmt.Errorf("invalid")
}

func record(sink string, x any) {
	for _, t := range tokens(x) {
		if !valid[t] {
			flows[t+">"+sink] = true
		}
	}
}

func tokens(x any) []string {
	seen := map[string]bool{}
	visited := map[uintptr]bool{}
	walk(reflect.ValueOf(x), seen, visited, 0)
	var out []string
	for t := range seen {
		out = append(out, t)
	}
	sort.Strings(out)
	return out
}

func scan(s string, seen map[string]bool) {
	for _, m := range tokRe.FindAllStringSubmatch(s, -1) {
		seen[strings.ToUpper(m[1])+m[2]] = true
	}
}

func walk(v reflect.Value, seen map[string]bool, visited map[uintptr]bool, depth int) {
	if !v.IsValid() || depth > 12 {
		return
	}
	switch v.Kind() {
	case reflect.String:
		scan(v.String(), seen)
	case reflect.Slice:
		if v.IsNil() {
			return
		}
		if v.Type().Elem().Kind() == reflect.Uint8 {
			b := make([]byte, v.Len())
			for i := 0; i < v.Len(); i++ {
				b[i] = byte(v.Index(i).Uint())
			}
			scan(string(b), seen)
			return
		}
		for i := 0; i < v.Len(); i++ {
			walk(v.Index(i), seen, visited, depth+1)
		}
	case reflect.Array:
		for i := 0; i < v.Len(); i++ {
			walk(v.Index(i), seen, visited, depth+1)
		}
	case reflect.Pointer:
		if v.IsNil() || visited[v.Pointer()] {
			return
		}
		visited[v.Pointer()] = true
		walk(v.Elem(), seen, visited, depth+1)
	case reflect.Interface:
		if v.IsNil() {
			return
		}
		walk(v.Elem(), seen, visited, depth+1)
	case reflect.Struct:
		for i := 0; i < v.NumField(); i++ {
			walk(v.Field(i), seen, visited, depth+1)
		}
	case reflect.Map:
		if v.IsNil() {
			return
		}
		it := v.MapRange()
		for it.Next() {
			walk(it.Key(), seen, visited, depth+1)
			walk(it.Value(), seen, visited, depth+1)
		}
	case reflect.Chan:
		// buffered values are not observable without receiving: ignored (oracle stays one-sided)
	}
}

// Result is the outcome of exploring one program.
type Result struct {
	Name     string
	Flows    []string // "S1>1": token S1 reached sink 1 unvalidated
	Execs    int
	Branches int
	Panics   int
	Capped   bool
	Alias    []string // C11: "i=j" probes i and j saw the same object in one execution; "i@k" probe i saw the object allocated at Mark k
	Events   []string // C12/C18: "caller>callee" ids
	Logs     []string // C16: distinct deferred-run logs ("3,1" = D(3) ran first), "!p" suffix when the run panicked
}

// TimeoutMs > 0 runs every execution in its own goroutine and abandons it after the timeout (std calls may block).
var TimeoutMs = 0

func runOnce(e Entry, prefix []bool) (n int, panicked bool) {
	if TimeoutMs <= 0 {
		return runOnce1(e, prefix)
	}
	type res struct {
		n int
		p bool
	}
	ch := make(chan res, 1)
	go func() {
		n, p := runOnce1(e, prefix)
		ch <- res{n, p}
	}()
	select {
	case r := <-ch:
		return r.n, r.p
	case <-time.After(time.Duration(TimeoutMs) * time.Millisecond):
		Hung++
		return 0, true
	}
}

// Hung counts abandoned executions.
var Hung = 0

func runOnce1(e Entry, prefix []bool) (n int, panicked bool) {
	vv = prefix
	pos = 0
	valid = map[string]bool{}
	dlog = nil
	cstack = nil
	gowait = nil
	e.Reset()
	defer func() {
		if r := recover(); r != nil {
			panicked = true
		}
		n = pos
		flushProbes()
		l := strings.Join(dlog, ",")
		if panicked {
			l += "!p"
		}
		logs[l] = true
	}()
	e.Main()
	return pos, false
}

// Explore runs every valuation of the program's Cond() calls (DFS, default false, horizon Horizon).
func Explore(e Entry) Result {
	flows = map[string]bool{}
	logs = map[string]bool{}
	events = map[string]bool{}
	aliasSet = map[string]bool{}
	res := Result{Name: e.Name}
	var rec func(prefix []bool)
	rec = func(prefix []bool) {
		n, p := runOnce(e, prefix)
		res.Execs++
		if p {
			res.Panics++
		}
		if n > Horizon {
			res.Capped = true
			n = Horizon
		}
		for i := len(prefix); i < n; i++ {
			np := make([]bool, i+1)
			copy(np, prefix)
			np[i] = true
			res.Branches++
			rec(np)
		}
	}
	rec(nil)
	for f := range flows {
		res.Flows = append(res.Flows, f)
	}
	sort.Strings(res.Flows)
	for ev := range events {
		res.Events = append(res.Events, ev)
	}
	sort.Strings(res.Events)
	for a := range aliasSet {
		res.Alias = append(res.Alias, a)
	}
	sort.Strings(res.Alias)
	if WantLogs {
		for l := range logs {
			res.Logs = append(res.Logs, l)
		}
		sort.Strings(res.Logs)
	}
	return res
}

// ResetFlows / Flows give direct access to the recorded flows (used by the schedule-exploring native runner).
func ResetFlows() { flows = map[string]bool{}; valid = map[string]bool{} }
func Flows() []string {
	var out []string
	for f := range flows {
		out = append(out, f)
	}
	sort.Strings(out)
	return out
}

// RunSingle runs one program once under the given valuation, without recovering anything.
func RunSingle(e Entry, bits []bool) {
	vv = bits
	pos = 0
	e.Reset()
	e.Main()
}

// WantLogs makes Explore report the deferred-run logs.
var WantLogs = false
`

// AnalysisMain is appended to a program rendered for analysis.
func AnalysisMain(prefix string) string {
	return "func main() {\n\t" + prefix + "main()\n}\n"
}

package gen

import (
	"encoding/json"
	"fmt"
	"strings"
)

// SpecCase is one C10 case: a function signature, a 0/1 specification matrix, a call form.
type SpecCase struct {
	Sig      string
	Atoms    []string
	Src      string              // analysed main source
	SpecJSON string              // dataflow-specs file content
	Expect   map[string][]string // sink id -> source ids that MUST be reported (direct spec entries + own taint)
	Allowed  map[string][]string // sink id -> source ids that MAY be reported (transitive closure of the spec)
}

var specSources = []string{"rt.Source1()", "rt.Source3()", "rt.Source4()"}
var specSourceIDs = []string{"S1", "S3", "S4"}
var specSinks = []string{"rt.Sink1", "rt.Sink3", "rt.Sink4", "rt.Sink5", "rt.Sink6"}
var specSinkIDs = []string{"1", "3", "4", "5", "6"}

// SpecForms are the call forms.
var SpecForms = []string{"func", "methodV", "methodP", "iface", "ifaceBoth", "fvalue", "ifaceImplSpec", "mvalue"}

type summaryJSON struct {
	Args [][]int
	Rets [][]int
}

// EnumerateSpecs enumerates all cases with arity <= maxArity.
func EnumerateSpecs(maxArity int, forms []string) []SpecCase {
	var out []SpecCase
	for a := 1; a <= maxArity; a++ {
		for kinds := 0; kinds < 1<<a; kinds++ { // bit i set: param i is *string
			for r := 0; r <= 2; r++ {
				nArgBits := a * (a - 1)
				nRetBits := a * r
				for am := 0; am < 1<<nArgBits; am++ {
					for rm := 0; rm < 1<<nRetBits; rm++ {
						for _, form := range forms {
							out = append(out, makeSpecCase(a, kinds, r, am, rm, form))
						}
					}
				}
			}
		}
	}
	return out
}

func makeSpecCase(a, kinds, r, am, rm int, form string) SpecCase {
	isPtr := func(i int) bool { return kinds&(1<<i) != 0 }
	// decode matrices
	args := make([][]bool, a)
	rets := make([][]bool, a)
	bit := 0
	for i := 0; i < a; i++ {
		args[i] = make([]bool, a)
		rets[i] = make([]bool, r)
		for k := 0; k < a; k++ {
			if k == i {
				continue
			}
			args[i][k] = am&(1<<bit) != 0
			bit++
		}
	}
	bit = 0
	for i := 0; i < a; i++ {
		for j := 0; j < r; j++ {
			rets[i][j] = rm&(1<<bit) != 0
			bit++
		}
	}
	off := 0 // index shift for a receiver
	if form != "func" && form != "fvalue" {
		off = 1
	}
	// the specification (with the receiver as argument 0 when there is one; the receiver keeps its own taint)
	sj := summaryJSON{}
	if off == 1 {
		sj.Args = append(sj.Args, []int{0})
		sj.Rets = append(sj.Rets, []int{})
	}
	for i := 0; i < a; i++ {
		row := []int{i + off}
		for k := 0; k < a; k++ {
			if args[i][k] {
				row = append(row, k+off)
			}
		}
		sj.Args = append(sj.Args, row)
		rrow := []int{}
		for j := 0; j < r; j++ {
			if rets[i][j] {
				rrow = append(rrow, j)
			}
		}
		sj.Rets = append(sj.Rets, rrow)
	}
	// program
	var sb strings.Builder
	sb.WriteString(shapeHeader)
	params := []string{}
	for i := 0; i < a; i++ {
		t := "string"
		if isPtr(i) {
			t = "*string"
		}
		params = append(params, fmt.Sprintf("p%d %s", i, t))
	}
	results := ""
	switch r {
	case 1:
		results = " string"
	case 2:
		results = " (string, string)"
	}
	val := func(i int) string {
		if isPtr(i) {
			return fmt.Sprintf("*p%d", i)
		}
		return fmt.Sprintf("p%d", i)
	}
	// body = complement of the specification
	var body strings.Builder
	for k := 0; k < a; k++ {
		if !isPtr(k) {
			continue
		}
		var parts []string
		for i := 0; i < a; i++ {
			if i != k && !args[i][k] {
				parts = append(parts, val(i))
			}
		}
		if len(parts) > 0 {
			// read everything before writing: evaluate into temporaries first
			fmt.Fprintf(&body, "\tn%d := *p%d + %s\n", k, k, strings.Join(parts, " + "))
		}
	}
	for k := 0; k < a; k++ {
		if isPtr(k) && strings.Contains(body.String(), fmt.Sprintf("\tn%d :=", k)) {
			fmt.Fprintf(&body, "\t*p%d = n%d\n", k, k)
		}
	}
	if r > 0 {
		var rs []string
		for j := 0; j < r; j++ {
			parts := []string{"\"c\""}
			for i := 0; i < a; i++ {
				if !rets[i][j] {
					parts = append(parts, val(i))
				}
			}
			rs = append(rs, strings.Join(parts, " + "))
		}
		fmt.Fprintf(&body, "\treturn %s\n", strings.Join(rs, ", "))
	}
	key := ""
	var spec []map[string]any
	methods := map[string]any{"Spec": sj}
	switch form {
	case "func", "fvalue":
		fmt.Fprintf(&sb, "func Spec(%s)%s {\n%s}\n", strings.Join(params, ", "), results, body.String())
		key = "call"
		spec = append(spec, map[string]any{"ObjectPath": MainPath, "Methods": methods})
	case "methodV", "mvalue":
		fmt.Fprintf(&sb, "type K struct{}\nfunc (K) Spec(%s)%s {\n%s}\n", strings.Join(params, ", "), results, body.String())
		spec = append(spec, map[string]any{"ObjectPath": "(" + MainPath + ".K)", "Methods": methods})
	case "ifaceImplSpec":
		// the interface has no contract; the only implementation has a function contract
		fmt.Fprintf(&sb, "type I interface{ Spec(%s)%s }\ntype K struct{}\nfunc (K) Spec(%s)%s {\n%s}\n", strings.Join(params, ", "), results,
			strings.Join(params, ", "), results, body.String())
		spec = append(spec, map[string]any{"ObjectPath": "(" + MainPath + ".K)", "Methods": methods})
	case "methodP":
		fmt.Fprintf(&sb, "type K struct{ x int }\nfunc (*K) Spec(%s)%s {\n%s}\n", strings.Join(params, ", "), results, body.String())
		spec = append(spec, map[string]any{"ObjectPath": "(*" + MainPath + ".K)", "Methods": methods})
	case "iface", "ifaceBoth":
		fmt.Fprintf(&sb, "type I interface{ Spec(%s)%s }\ntype K struct{}\nfunc (K) Spec(%s)%s {\n%s}\n", strings.Join(params, ", "), results,
			strings.Join(params, ", "), results, body.String())
		spec = append(spec, map[string]any{"InterfaceId": MainPath + ".I", "Methods": methods})
		if form == "ifaceBoth" {
			// a function contract for the implementation with the COMPLEMENT flows: the interface contract must win
			comp := summaryJSON{Args: [][]int{{0}}, Rets: [][]int{{}}}
			for i := 0; i < a; i++ {
				row := []int{i + 1}
				for k := 0; k < a; k++ {
					if k != i && !args[i][k] {
						row = append(row, k+1)
					}
				}
				comp.Args = append(comp.Args, row)
				rrow := []int{}
				for j := 0; j < r; j++ {
					if !rets[i][j] {
						rrow = append(rrow, j)
					}
				}
				comp.Rets = append(comp.Rets, rrow)
			}
			spec = append(spec, map[string]any{"ObjectPath": "(" + MainPath + ".K)", "Methods": map[string]any{"Spec": comp}})
		}
	}
	_ = key
	// main
	sb.WriteString("func main() {\n")
	var callArgs []string
	for i := 0; i < a; i++ {
		fmt.Fprintf(&sb, "\tv%d := %s\n", i, specSources[i])
		if isPtr(i) {
			callArgs = append(callArgs, fmt.Sprintf("&v%d", i))
		} else {
			callArgs = append(callArgs, fmt.Sprintf("v%d", i))
		}
	}
	recv := ""
	switch form {
	case "func":
		recv = "Spec"
	case "fvalue":
		sb.WriteString("\tfv := Spec\n")
		recv = "fv"
	case "mvalue":
		sb.WriteString("\tmv := K{}.Spec\n")
		recv = "mv"
	case "ifaceImplSpec":
		sb.WriteString("\tvar it I = K{}\n")
		recv = "it.Spec"
	case "methodV":
		recv = "K{}.Spec"
	case "methodP":
		recv = "(&K{}).Spec"
	case "iface", "ifaceBoth":
		sb.WriteString("\tvar it I = K{}\n")
		recv = "it.Spec"
	}
	call := fmt.Sprintf("%s(%s)", recv, strings.Join(callArgs, ", "))
	switch r {
	case 0:
		fmt.Fprintf(&sb, "\t%s\n", call)
	case 1:
		fmt.Fprintf(&sb, "\tr0 := %s\n", call)
	case 2:
		fmt.Fprintf(&sb, "\tr0, r1 := %s\n", call)
	}
	expect := map[string][]string{}
	allowed := map[string][]string{}
	// transitive closure over arguments
	reach := make([][]bool, a)
	for i := range reach {
		reach[i] = make([]bool, a)
		reach[i][i] = true
		for k := 0; k < a; k++ {
			if args[i][k] {
				reach[i][k] = true
			}
		}
	}
	for m := 0; m < a; m++ {
		for i := 0; i < a; i++ {
			for k := 0; k < a; k++ {
				if reach[i][m] && reach[m][k] {
					reach[i][k] = true
				}
			}
		}
	}
	sink := 0
	for j := 0; j < r; j++ {
		fmt.Fprintf(&sb, "\t%s(r%d)\n", specSinks[sink], j)
		for i := 0; i < a; i++ {
			if rets[i][j] {
				expect[specSinkIDs[sink]] = append(expect[specSinkIDs[sink]], specSourceIDs[i])
			}
			for m := 0; m < a; m++ {
				if reach[i][m] && rets[m][j] {
					allowed[specSinkIDs[sink]] = appendUnique(allowed[specSinkIDs[sink]], specSourceIDs[i])
				}
			}
		}
		sink++
	}
	for k := 0; k < a; k++ {
		if !isPtr(k) {
			continue
		}
		fmt.Fprintf(&sb, "\t%s(v%d)\n", specSinks[sink], k)
		expect[specSinkIDs[sink]] = append(expect[specSinkIDs[sink]], specSourceIDs[k])
		for i := 0; i < a; i++ {
			if i != k && args[i][k] {
				expect[specSinkIDs[sink]] = append(expect[specSinkIDs[sink]], specSourceIDs[i])
			}
			if reach[i][k] {
				allowed[specSinkIDs[sink]] = appendUnique(allowed[specSinkIDs[sink]], specSourceIDs[i])
			}
		}
		sink++
	}
	sb.WriteString("}\n")
	sjb, _ := json.Marshal(spec)
	kindStr := ""
	for i := 0; i < a; i++ {
		if isPtr(i) {
			kindStr += "p"
		} else {
			kindStr += "v"
		}
	}
	sig := fmt.Sprintf("spec[%s a=%s r=%d args=%0*b rets=%0*b]", form, kindStr, r, max(1, a*(a-1)), am, max(1, a*r), rm)
	return SpecCase{Sig: sig, Atoms: []string{"form:" + form, fmt.Sprintf("arity:%d", a), fmt.Sprintf("results:%d", r), "kinds:" + kindStr},
		Src: sb.String(), SpecJSON: string(sjb), Expect: expect, Allowed: allowed}
}

func appendUnique(a []string, s string) []string {
	for _, x := range a {
		if x == s {
			return a
		}
	}
	return append(a, s)
}

// TwoKeySpecCases: one function reachable under TWO contract keys with different matrices, both call sites in the same
// program: (a) a function contract and an interface-method contract for its only implementation (static call and
// interface call), (b) two interfaces with a same-named method and different contracts sharing the implementation.
// Every (flows through key 1?, flows through key 2?) combination, both orders of the call sites.
func TwoKeySpecCases() []SpecCase {
	var out []SpecCase
	one := func(flow bool) summaryJSON {
		s := summaryJSON{Args: [][]int{{0}, {1}}, Rets: [][]int{{}, {}}}
		if flow {
			s.Rets[1] = []int{0}
		}
		return s
	}
	for _, kind := range []string{"fnAndIface", "twoIfaces"} {
		for _, f1 := range []bool{false, true} {
			for _, f2 := range []bool{false, true} {
				for _, rev := range []bool{false, true} {
					var sb strings.Builder
					sb.WriteString(shapeHeader)
					// the body flows iff NEITHER... it implements the complement of key 1, so consulting it is observable
					body := "\treturn \"c\"\n"
					if !f1 {
						body = "\treturn \"c\" + p0\n"
					}
					var spec []map[string]any
					var c1, c2 string
					if kind == "fnAndIface" {
						sb.WriteString("type I interface{ Spec(p0 string) string }\ntype K struct{}\nfunc (K) Spec(p0 string) string {\n" + body + "}\n")
						spec = append(spec, map[string]any{"InterfaceId": MainPath + ".I", "Methods": map[string]any{"Spec": one(f1)}})
						spec = append(spec, map[string]any{"ObjectPath": "(" + MainPath + ".K)", "Methods": map[string]any{"Spec": one(f2)}})
						c1 = "\tvar it I = K{}\n\tv0 := rt.Source1()\n\tr0 := it.Spec(v0)\n\trt.Sink1(r0)\n"
						c2 = "\tw0 := rt.Source3()\n\tr1 := K{}.Spec(w0)\n\trt.Sink3(r1)\n"
					} else {
						sb.WriteString("type I interface{ Spec(p0 string) string }\ntype J interface{ Spec(p0 string) string }\ntype K struct{}\nfunc (K) Spec(p0 string) string {\n" + body + "}\n")
						spec = append(spec, map[string]any{"InterfaceId": MainPath + ".I", "Methods": map[string]any{"Spec": one(f1)}})
						spec = append(spec, map[string]any{"InterfaceId": MainPath + ".J", "Methods": map[string]any{"Spec": one(f2)}})
						c1 = "\tvar it I = K{}\n\tv0 := rt.Source1()\n\tr0 := it.Spec(v0)\n\trt.Sink1(r0)\n"
						c2 = "\tvar jt J = K{}\n\tw0 := rt.Source3()\n\tr1 := jt.Spec(w0)\n\trt.Sink3(r1)\n"
					}
					sb.WriteString("func main() {\n")
					if rev {
						sb.WriteString(c2 + c1)
					} else {
						sb.WriteString(c1 + c2)
					}
					sb.WriteString("}\n")
					exp := map[string][]string{}
					if f1 {
						exp["1"] = []string{"S1"}
					}
					if f2 {
						exp["3"] = []string{"S3"}
					}
					sjb, _ := json.Marshal(spec)
					sig := fmt.Sprintf("spec2[%s key1=%v key2=%v rev=%v]", kind, f1, f2, rev)
					out = append(out, SpecCase{Sig: sig, Atoms: []string{"form:" + kind, "twokeys", fmt.Sprintf("differ:%v", f1 != f2)},
						Src: sb.String(), SpecJSON: string(sjb), Expect: exp, Allowed: exp})
				}
			}
		}
	}
	return out
}

package gen

import (
	"fmt"
	"strings"
)

// Concurrent subjects for C13/C14 (DESIGN.md §13.5): one description, two renderings. The plain rendering is what the
// analyzer sees; the shim rendering runs under the controlled scheduler: go statements, channel, mutex operations and
// every shared-memory access are scheduling points, and every access logs (plain line, goroutine, location).

type cline struct {
	plain string
	shim  string // "" = same as plain
	loc   string // location expression of a memory/channel access on this line ("" = none)
	write bool
}

func cl(s string) cline                           { return cline{plain: s} }
func cls(plain, shim string) cline                { return cline{plain: plain, shim: shim} }
func cacc(s, loc string, w bool) cline            { return cline{plain: s, loc: loc, write: w} }
func caccs(plain, shim, loc string, w bool) cline { return cline{plain: plain, shim: shim, loc: loc, write: w} }

type cmech struct {
	id       string
	decls    []cline // package level
	setup    []cline // in main before any go statement
	params   string  // child parameter list
	paramsSh string  // shim parameter list ("" = same)
	args     string  // arguments at the go statement
	write    func(x string) []cline
	read     func(y string) []cline
}

var cmechs = []cmech{
	{id: "argPtr", setup: []cline{cl("p := &O{}")}, params: "p *O", args: "p",
		write: func(x string) []cline { return []cline{cacc("p.F = "+x, "&p.F", true)} },
		read:  func(y string) []cline { return []cline{cacc(y+" = p.F", "&p.F", false)} }},
	{id: "global", decls: []cline{cl("var GS string")},
		write: func(x string) []cline { return []cline{cacc("GS = "+x, "&GS", true)} },
		read:  func(y string) []cline { return []cline{cacc(y+" = GS", "&GS", false)} }},
	{id: "globalObj", decls: []cline{cl("var GO = &O{}")},
		write: func(x string) []cline { return []cline{cacc("GO.F = "+x, "&GO.F", true)} },
		read:  func(y string) []cline { return []cline{cacc(y+" = GO.F", "&GO.F", false)} }},
	{id: "chanVal", setup: []cline{cls("c := make(chan string, 1)", "c := vsched.MakeChan[string](1)")}, params: "c chan string",
		paramsSh: "c *vsched.Chan[string]", args: "c",
		write: func(x string) []cline { return []cline{caccs("c <- "+x, "c.Send("+x+")", "c", true)} },
		read:  func(y string) []cline { return []cline{caccs(y+" = <-c", y+" = c.Recv()", "c", false)} }},
	{id: "chanPtr", setup: []cline{cls("c := make(chan *O, 1)", "c := vsched.MakeChan[*O](1)")}, params: "c chan *O",
		paramsSh: "c *vsched.Chan[*O]", args: "c",
		write: func(x string) []cline {
			return []cline{cl("q := &O{}"), cacc("q.F = "+x, "&q.F", true), caccs("c <- q", "c.Send(q)", "c", true)}
		},
		read: func(y string) []cline {
			return []cline{caccs("r := <-c", "r := c.Recv()", "c", false), cacc(y+" = r.F", "&r.F", false)}
		}},
	{id: "map", setup: []cline{cl("m := map[string]string{}")}, params: "m map[string]string", args: "m",
		write: func(x string) []cline { return []cline{cacc("m[\"k\"] = "+x, "vsched.MapID(m)", true)} },
		read:  func(y string) []cline { return []cline{cacc(y+" = m[\"k\"]", "vsched.MapID(m)", false)} }},
	{id: "slice", setup: []cline{cl("s := make([]string, 2)")}, params: "s []string", args: "s",
		write: func(x string) []cline { return []cline{cacc("s[0] = "+x, "&s[0]", true)} },
		read:  func(y string) []cline { return []cline{cacc(y+" = s[0]", "&s[0]", false)} }},
	{id: "iface", setup: []cline{cl("var i any = &O{}")}, params: "i any", args: "i",
		write: func(x string) []cline { return []cline{cacc("i.(*O).F = "+x, "&i.(*O).F", true)} },
		read:  func(y string) []cline { return []cline{cacc(y+" = i.(*O).F", "&i.(*O).F", false)} }},
	{id: "nested", setup: []cline{cl("w := &W{In: &O{}}")}, params: "w *W", args: "w",
		write: func(x string) []cline { return []cline{cacc("w.In.F = "+x, "&w.In.F", true)} },
		read:  func(y string) []cline { return []cline{cacc(y+" = w.In.F", "&w.In.F", false)} }},
	{id: "fnField", setup: []cline{cl("h := &H{}")}, params: "h *H", args: "h",
		write: func(x string) []cline {
			return []cline{cacc("h.Fn = func() string { return "+x+" }", "&h.Fn", true)}
		},
		read: func(y string) []cline {
			return []cline{cacc("fn := h.Fn", "&h.Fn", false), cl("if fn != nil {"), cl("\t" + y + " = fn()"), cl("}")}
		}},
	{id: "ptrToLocal", setup: []cline{cl("var loc string"), cl("p := &loc")}, params: "p *string", args: "p",
		write: func(x string) []cline { return []cline{cacc("*p = "+x, "p", true)} },
		read:  func(y string) []cline { return []cline{cacc(y+" = *p", "p", false)} }},
	// the shared object is received in a select statement whose FIRST case receives from a channel of a basic type
	{id: "selectRecv", setup: []cline{cls("c := make(chan *O, 1)", "c := vsched.MakeChan[*O](1)"), cls("cb := make(chan bool, 1)", "cb := vsched.MakeChan[bool](1)")},
		params: "c chan *O, cb chan bool", paramsSh: "c *vsched.Chan[*O], cb *vsched.Chan[bool]", args: "c, cb",
		write: func(x string) []cline {
			return []cline{cl("q := &O{}"), cacc("q.F = "+x, "&q.F", true), caccs("c <- q", "c.Send(q)", "c", true)}
		},
		read: func(y string) []cline {
			return []cline{cls("select {", "switch selIdx, _, r := vsched.SelectRecv2(cb, c); selIdx {"), cls("case b := <-cb:", "case 0:"), cls("\t_ = b", "\t_ = selIdx"),
				cls("case r := <-c:", "case 1:"), cacc("\t"+y+" = r.F", "&r.F", false), cl("}")}
		}},
	// the tainted VALUE (no pointer inside) leaves its goroutine through the send clause of a select statement
	{id: "selectSendVal", setup: []cline{cls("c := make(chan string, 1)", "c := vsched.MakeChan[string](1)")}, params: "c chan string",
		paramsSh: "c *vsched.Chan[string]", args: "c",
		write: func(x string) []cline {
			return []cline{cls("select {", "{"), caccs("case c <- "+x+":", "c.Send("+x+")", "c", true), cls("default:", "// default:"), cl("}")}
		},
		read: func(y string) []cline { return []cline{caccs(y+" = <-c", y+" = c.Recv()", "c", false)} }},
	// the pointer to the shared object travels inside a struct passed BY VALUE to the goroutine
	{id: "structByValue", decls: []cline{cl("type Box struct{ P *O }")}, setup: []cline{cl("b := Box{P: &O{}}")}, params: "b Box", args: "b",
		write: func(x string) []cline { return []cline{cacc("b.P.F = "+x, "&b.P.F", true)} },
		read:  func(y string) []cline { return []cline{cacc(y+" = b.P.F", "&b.P.F", false)} }},
	{id: "structByValueNested", decls: []cline{cl("type Box struct{ P *O }"), cl("type Box2 struct {"), cl("\tIn Box"), cl("\tN  int"), cl("}")},
		setup: []cline{cl("b := Box2{In: Box{P: &O{}}}")}, params: "b Box2", args: "b",
		write: func(x string) []cline { return []cline{cacc("b.In.P.F = "+x, "&b.In.P.F", true)} },
		read:  func(y string) []cline { return []cline{cacc(y+" = b.In.P.F", "&b.In.P.F", false)} }},
	{id: "arrayByValue", setup: []cline{cl("b := [1]*O{&O{}}")}, params: "b [1]*O", args: "b",
		write: func(x string) []cline { return []cline{cacc("b[0].F = "+x, "&b[0].F", true)} },
		read:  func(y string) []cline { return []cline{cacc(y+" = b[0].F", "&b[0].F", false)} }},
	// the shared object is written / read inside a callee that receives it as an EXPLICIT pointer argument; the callee is
	// reached through an interface method, a static function, a function value, a pointer-receiver method
	{id: "setterIface", decls: []cline{cl("type Lab interface {"), cl("\tSet(o *O, s string)"), cl("\tGet(o *O) string"), cl("}"), cl("type lab struct{}"),
		cl("func (lab) Set(o *O, s string) {"), cacc("\to.F = s", "&o.F", true), cl("}"),
		cl("func (lab) Get(o *O) string {"), cacc("\tr := o.F", "&o.F", false), cl("\treturn r"), cl("}")},
		setup: []cline{cl("p := &O{}"), cl("var l Lab = lab{}")}, params: "p *O, l Lab", args: "p, l",
		write: func(x string) []cline { return []cline{cl("l.Set(p, " + x + ")")} },
		read:  func(y string) []cline { return []cline{cl(y + " = l.Get(p)")} }},
	{id: "setterStatic", decls: []cline{cl("func setO(o *O, s string) {"), cacc("\to.F = s", "&o.F", true), cl("}"),
		cl("func getO(o *O) string {"), cacc("\tr := o.F", "&o.F", false), cl("\treturn r"), cl("}")},
		setup: []cline{cl("p := &O{}")}, params: "p *O", args: "p",
		write: func(x string) []cline { return []cline{cl("setO(p, " + x + ")")} },
		read:  func(y string) []cline { return []cline{cl(y + " = getO(p)")} }},
	{id: "setterFnValue", decls: []cline{cl("func setO(o *O, s string) {"), cacc("\to.F = s", "&o.F", true), cl("}"),
		cl("func setG(o *O, s string) {"), cacc("\to.G = s", "&o.G", true), cl("}"),
		cl("func getO(o *O) string {"), cacc("\tr := o.F", "&o.F", false), cl("\treturn r"), cl("}")},
		setup: []cline{cl("p := &O{}"), cl("set := setG"), cl("if !rt.Cond() {"), cl("\tset = setO"), cl("}")}, params: "p *O, set func(*O, string)", args: "p, set",
		write: func(x string) []cline { return []cline{cl("set(p, " + x + ")")} },
		read:  func(y string) []cline { return []cline{cl(y + " = getO(p)")} }},
	{id: "setterMethodPtr", decls: []cline{cl("type K struct{ n int }"), cl("func (k *K) Set(o *O, s string) {"), cacc("\to.F = s", "&o.F", true), cl("}"),
		cl("func (k *K) Get(o *O) string {"), cacc("\tr := o.F", "&o.F", false), cl("\treturn r"), cl("}")},
		setup: []cline{cl("p := &O{}"), cl("k := &K{}")}, params: "p *O, k *K", args: "p, k",
		write: func(x string) []cline { return []cline{cl("k.Set(p, " + x + ")")} },
		read:  func(y string) []cline { return []cline{cl(y + " = k.Get(p)")} }},
}

// ConcPlacements: who writes and who reads.
var ConcPlacements = []string{"parentBefore>child", "parentAfter>child", "child>parent", "child>child2", "local", "parentLoop>child"}

// ConcSyncs: synchronisation used.
var ConcSyncs = []string{"none", "join", "mutex"}

// ConcCase is one concurrent subject.
type ConcCase struct {
	Subject
	Shim     string        // shim rendering (package conc<N>, func Main)
	AccLines map[int]string // plain line -> description, for every logged access
}

func ConcFamily() []ConcCase {
	var out []ConcCase
	for mi := range cmechs {
		for _, pl := range ConcPlacements {
			for _, sy := range ConcSyncs {
				if pl == "local" && sy != "none" {
					continue
				}
				for _, captured := range []bool{false, true} {
					m := &cmechs[mi]
					if captured && (m.params == "" || pl == "local") {
						continue // globals need no capture
					}
					out = append(out, concCase(m, pl, sy, captured))
				}
			}
		}
	}
	return out
}

func concCase(m *cmech, pl, sy string, captured bool) ConcCase {
	// goroutine bodies
	src := func(x string) cline { return cl(x + " := rt.Source1()") }
	sink := func(y string) cline { return cl("rt.Sink1(" + y + ")") }
	lock := cls("mu.Lock()", "mu.Lock()")
	unlock := cls("mu.Unlock()", "mu.Unlock()")
	guard := func(ls []cline) []cline {
		if sy != "mutex" {
			return ls
		}
		return append(append([]cline{lock}, ls...), unlock)
	}
	writer := func() []cline { return append([]cline{src("x")}, guard(m.write("x"))...) }
	reader := func() []cline {
		return append(append([]cline{cl("var y string")}, guard(m.read("y"))...), sink("y"))
	}
	done := caccs("done <- true", "done.Send(true)", "", false)
	wait := caccs("<-done", "done.Recv()", "", false)
	var parentPre, parentPost, child1, child2 []cline
	switch pl {
	case "parentBefore>child":
		parentPre = writer()
		child1 = reader()
	case "parentAfter>child":
		parentPost = writer()
		child1 = reader()
	case "child>parent":
		child1 = writer()
		parentPost = reader()
	case "child>child2":
		child1 = writer()
		child2 = reader()
	case "parentLoop>child":
		// the parent writes and then launches a reader, twice in a loop: the second write races with the first reader
		// (the leak happens AFTER the access in the loop body and only changes the status of the object)
		child1 = reader()
	case "local":
		// everything in the parent; a goroutine exists but shares nothing
		parentPre = append(writer(), reader()...)
		child1 = []cline{cl("z := rt.Source1()"), cl("_ = z")}
	}
	useDone := sy == "join"
	extraParams, extraParamsSh, extraArgs := "", "", ""
	if sy == "mutex" && !captured {
		extraParams, extraParamsSh, extraArgs = ", mu *sync.Mutex", ", mu *vsched.Mutex", ", mu"
	}
	if useDone && !captured {
		extraParams += ", done chan bool"
		extraParamsSh += ", done *vsched.Chan[bool]"
		extraArgs += ", done"
	}
	params, paramsSh, args := m.params, m.paramsSh, m.args
	if paramsSh == "" {
		paramsSh = params
	}
	if pl == "local" {
		params, paramsSh, args = "", "", ""
		extraParams, extraParamsSh, extraArgs = strings.TrimPrefix(extraParams, ", "), strings.TrimPrefix(extraParamsSh, ", "), strings.TrimPrefix(extraArgs, ", ")
	}
	if params == "" {
		extraParams, extraParamsSh, extraArgs = strings.TrimPrefix(extraParams, ", "), strings.TrimPrefix(extraParamsSh, ", "), strings.TrimPrefix(extraArgs, ", ")
	}
	var lines []cline
	add := func(ls ...cline) { lines = append(lines, ls...) }
	ind := func(ls []cline, n int) []cline {
		var out []cline
		for _, l := range ls {
			l2 := l
			l2.plain = strings.Repeat("\t", n) + l.plain
			if l.shim != "" {
				l2.shim = strings.Repeat("\t", n) + l.shim
			}
			out = append(out, l2)
		}
		return out
	}
	add(cl("type O struct{ F, G string }"), cl("type W struct{ In *O }"), cl("type H struct{ Fn func() string }"))
	add(m.decls...)
	childFn := func(name string, body []cline) {
		if captured {
			return
		}
		add(cls(fmt.Sprintf("func %s(%s%s) {", name, params, extraParams), fmt.Sprintf("func %s(%s%s) {", name, paramsSh, extraParamsSh)))
		add(ind(body, 1)...)
		if useDone {
			add(ind([]cline{done}, 1)...)
		}
		add(cl("}"))
	}
	childFn("child1", child1)
	if child2 != nil {
		childFn("child2", child2)
	}
	add(cls("func main() {", "func Main() {"))
	var body []cline
	if pl != "local" || true {
		body = append(body, m.setup...)
	}
	if sy == "mutex" {
		body = append(body, cls("mu := &sync.Mutex{}", "mu := &vsched.Mutex{}"))
	}
	if useDone {
		body = append(body, cls("done := make(chan bool, 2)", "done := vsched.MakeChan[bool](2)"))
	}
	body = append(body, parentPre...)
	inLoop := pl == "parentLoop>child"
	launch := func(name string, b []cline) {
		if captured {
			body = append(body, cls("go func() {", "vsched.Go(func() {"))
			body = append(body, ind(b, 1)...)
			if useDone {
				body = append(body, ind([]cline{done}, 1)...)
			}
			body = append(body, cls("}()", "})"))
		} else {
			call := fmt.Sprintf("%s(%s%s)", name, args, extraArgs)
			body = append(body, cls("go "+call, "vsched.Go(func() { "+call+" })"))
		}
	}
	if inLoop {
		outer := body
		body = nil
		body = append(body, writer()...)
		launch("child1", child1)
		loopBody := body
		body = append(outer, cl("for it := 0; it < 2; it++ {"))
		body = append(body, ind(loopBody, 1)...)
		body = append(body, cl("}"))
	} else {
		launch("child1", child1)
	}
	if child2 != nil {
		launch("child2", child2)
	}
	if useDone && pl == "child>parent" {
		body = append(body, wait)
	}
	body = append(body, parentPost...)
	if useDone {
		n := 1
		if child2 != nil {
			n = 2
		}
		if pl == "child>parent" {
			n--
		}
		if inLoop {
			n = 2
		}
		for k := 0; k < n; k++ {
			body = append(body, wait)
		}
	}
	// keep otherwise unused setup variables alive
	if pl == "local" && m.args != "" {
		body = append(body, cl("_ = "+strings.Split(m.args, ",")[0]))
	}
	add(ind(body, 1)...)
	add(cl("}"))
	// render
	needSync := sy == "mutex"
	var plain, shim strings.Builder
	plain.WriteString("package main\n\nimport (\n\t\"" + RTPath + "\"\n")
	if needSync {
		plain.WriteString("\t\"sync\"\n")
	}
	plain.WriteString(")\n\nvar _ = rt.Cond\n\n")
	header := strings.Count(plain.String(), "\n")
	acc := map[int]string{}
	shim.WriteString("package PKG\n\nimport (\n\t\"" + RTPath + "\"\n\t\"zsubj/vsched\"\n)\n\nvar _ = rt.Cond\nvar _ = vsched.MapID[string, string]\n\n")
	for i, l := range lines {
		ln := header + i + 1
		plain.WriteString(l.plain + "\n")
		s := l.shim
		if s == "" {
			s = l.plain
		}
		if l.loc != "" {
			acc[ln] = strings.TrimSpace(l.plain)
			lead := s[:len(s)-len(strings.TrimLeft(s, "\t"))]
			fmt.Fprintf(&shim, "%svsched.AccLog(%d, %s, %v)\n", lead, ln, l.loc, l.write)
		}
		shim.WriteString(s + "\n")
	}
	capt := "args"
	if captured {
		capt = "captured"
	}
	sig := fmt.Sprintf("conc[%s,%s,%s,%s]", m.id, pl, sy, capt)
	return ConcCase{Subject: Subject{Sig: sig, Atoms: []string{"mech:" + m.id, "place:" + pl, "sync:" + sy, "bind:" + capt, "family:conc"}, Src: plain.String()},
		Shim: shim.String(), AccLines: acc}
}

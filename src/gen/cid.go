package gen

import (
	"fmt"
	"regexp"
	"strings"
)

// C04: code-identifier matching. A case = role x call form x specification pattern vector. The reference matcher
// below is independent of the tool: plain regexp.MatchString on facts the generator knows by construction.

const LibPath = "zsubj/lib"

// CIDSpec is the specification under test (empty field = not given).
type CIDSpec struct{ Package, Method, Receiver, Context string }

type cidSite struct {
	sink     string // sink id that observes this site ("1", "3", "4")
	pkg      string // callee package path
	name     string // callee name
	receiver string // bare receiver type name ("" for plain functions)
	context  string // enclosing function name facts: every reasonable rendering contains this string
}

// CIDCase is one case.
type CIDCase struct {
	Subject
	Lib      string
	Role     string
	Form     string
	Spec     CIDSpec
	Expected map[string]bool // sink id -> must a flow be reported there?
	Ident    [][2]string     // second family: the identifier's yaml keys in order (overrides Spec)
}

var cidPkgPats = []string{"", "^zsubj/lib$", "lib", "(foo|zsubj/lib)", "nomatch"}
var cidRecvPats = []string{"", "Src", "Zzz"}
var cidCtxPats = []string{"", "main", "qqq"}

func cidMethodPats(target string) []string {
	// target is e.g. "Get1": anchored, substring, prefix, non-matching, alternation
	return []string{"^" + target + "$", target[1:], "^" + target[:3], "^Nope$", target + "|Zzz"}
}

var cidForms = map[string][]string{
	"source":    {"direct", "methodV", "methodP", "iface", "fvalue", "mvalue", "mexpr", "inClosure", "fvalueDyn", "fvalueMixMV", "fvalueMixME", "fvalueMixGen", "fparamMix"},
	"sink":      {"direct", "methodV", "methodP", "iface", "fvalue", "mvalue", "mexpr", "inClosure", "deferred", "fvalueDyn", "fvalueMixMV", "fvalueMixME", "fvalueMixGen", "fparamMix"},
	"sanitizer": {"direct", "methodV", "iface", "fvalue"},
	"validator": {"direct", "methodV", "iface", "fvalue"},
}

// CIDRoles in order.
var CIDRoles = []string{"source", "sink", "sanitizer", "validator"}

func match(pat, fact string) bool {
	if pat == "" {
		return true
	}
	return regexp.MustCompile(pat).MatchString(fact)
}

func (s CIDSpec) matches(site cidSite) bool {
	if s.Receiver != "" && site.receiver == "" {
		return false
	}
	return match(s.Package, site.pkg) && match(s.Method, site.name) && match(s.Receiver, site.receiver) && match(s.Context, site.context)
}

const cidLib = `package lib

func Get1() string     { return "" }
func GetOther() string { return "" }
func Put1(x string)     {}
func PutOther(x string) {}
func San1(x string) string     { return x }
func SanOther(x string) string { return x }
func Val1(x string) bool     { return len(x) > 0 }
func ValOther(x string) bool { return len(x) > 1 }

type Src struct{}

func (Src) Get1() string          { return "" }
func (Src) Put1(x string)         {}
func (Src) San1(x string) string  { return x }
func (Src) Val1(x string) bool    { return len(x) > 0 }

type SrcP struct{ n int }

func (*SrcP) Get1() string  { return "" }
func (*SrcP) Put1(x string) {}

type Oth struct{}

func (Oth) Get1() string         { return "" }
func (Oth) Put1(x string)        {}
func (Oth) San1(x string) string { return x }
func (Oth) Val1(x string) bool   { return len(x) > 2 }

func Get1Of(s Src) string         { return "" }
func Put1Of(s Src, x string)      {}
func Neutral() string             { return "" }
func (Src) Neutral() string       { return "" }
func GenNeutral[T any]() string   { return "" }
func NeutralPut(x string)         {}
func (Src) NeutralPut(x string)   {}
func GenNeutralPut[T any](x string) {}
func NeutralOf(s Src) string      { return "" }
func NeutralPutOf(s Src, x string) {}

type Doer interface {
	Get1() string
	Put1(x string)
	San1(x string) string
	Val1(x string) bool
}
`

// callExpr renders a call of method/function base (e.g. "Get1") in the given form; args is the argument list text.
// It returns setup statements and the call expression.
func cidCall(form, base, args string) (setup []string, call string, recv string) {
	switch form {
	case "direct", "inClosure", "deferred":
		return nil, "lib." + base + "(" + args + ")", ""
	case "methodV":
		return nil, "(lib.Src{})." + base + "(" + args + ")", "Src"
	case "methodP":
		return nil, "(&lib.SrcP{})." + base + "(" + args + ")", "SrcP"
	case "iface":
		return []string{"var d lib.Doer = lib.Src{}"}, "d." + base + "(" + args + ")", "Src"
	case "fvalue":
		return []string{"fv := lib." + base}, "fv(" + args + ")", ""
	case "fvalueDyn", "fvalueMixMV", "fvalueMixME", "fvalueMixGen", "fparamMix":
		// a function value with several possible callees: a neutral one first (plain function / bound method value /
		// method expression / generic instance - the last three have no package in SSA), the target second
		neutral := "Neutral"
		if args != "" {
			neutral = "NeutralPut"
		}
		first := map[string]string{"fvalueDyn": "lib." + neutral, "fvalueMixMV": "lib.Src{}." + neutral, "fvalueMixGen": "lib.Gen" + neutral + "[int]",
			"fparamMix": "lib.Src{}." + neutral}[form]
		if form == "fvalueMixME" {
			// method expression: signature takes the receiver first; the target is wrapped in a function of that signature
			a := "lib.Src{}"
			if args != "" {
				a += ", " + args
			}
			return []string{"fv := lib.Src." + neutral, "if rt.Cond() {\n\tfv = lib." + base + "Of\n}"}, "fv(" + a + ")", ""
		}
		if form == "fparamMix" {
			if args == "" {
				return []string{"_ = runA(" + first + ")"}, "runA(lib." + base + ")", ""
			}
			return []string{"runA(" + first + ", \"c\")"}, "runA(lib." + base + ", " + args + ")", ""
		}
		return []string{"fv := " + first, "if rt.Cond() {\n\tfv = lib." + base + "\n}"}, "fv(" + args + ")", ""
	case "mvalue":
		return []string{"mv := lib.Src{}." + base}, "mv(" + args + ")", "Src"
	case "mexpr":
		a := "lib.Src{}"
		if args != "" {
			a += ", " + args
		}
		return []string{"me := lib.Src." + base}, "me(" + a + ")", "Src"
	}
	panic(form)
}

// EnumerateCID enumerates the full product.
func EnumerateCID() []CIDCase {
	var out []CIDCase
	for _, role := range CIDRoles {
		base := map[string]string{"source": "Get1", "sink": "Put1", "sanitizer": "San1", "validator": "Val1"}[role]
		other := map[string]string{"source": "GetOther", "sink": "PutOther", "sanitizer": "SanOther", "validator": "ValOther"}[role]
		for _, form := range cidForms[role] {
			for _, pp := range cidPkgPats {
				for _, mp := range cidMethodPats(base) {
					for _, rp := range cidRecvPats {
						for _, cp := range cidCtxPats {
							out = append(out, cidCase(role, form, base, other, CIDSpec{pp, mp, rp, cp}))
						}
					}
				}
			}
		}
	}
	return out
}

func cidCase(role, form, base, other string, spec CIDSpec) CIDCase {
	var body []string
	ctx := "main"
	wrapOpen, wrapClose := "", ""
	if form == "inClosure" {
		wrapOpen, wrapClose = "func() {", "}()"
		ctx = "main" // the closure's name main$1 still contains "main"
	}
	var sites []cidSite
	var decls []string
	name := base
	if form == "fvalueMixME" {
		name = base + "Of"
	}
	if form == "fparamMix" {
		ctx = "zsubj/main.runA"
		if role == "source" {
			decls = append(decls, "func runA(g func() string) string { return g() }")
		} else {
			decls = append(decls, "func runA(g func(string), x string) { g(x) }")
		}
	}
	switch role {
	case "source":
		setup, call, recv := cidCall(form, base, "")
		body = append(body, setup...)
		body = append(body, "var v string")
		if wrapOpen != "" {
			body = append(body, wrapOpen, "\tv = "+call, wrapClose)
		} else {
			body = append(body, "v = "+call)
		}
		body = append(body, "rt.Sink1(v)", "w := lib."+other+"()", "rt.Sink3(w)", "u := lib.Oth{}."+base+"()", "rt.Sink4(u)")
		sites = []cidSite{{"1", LibPath, name, recv, ctx}, {"3", LibPath, other, "", "main"}, {"4", LibPath, base, "Oth", "main"}}
	case "sink":
		setup, call, recv := cidCall(form, base, "x1")
		body = append(body, "x1 := rt.Source1()", "x3 := rt.Source3()", "x4 := rt.Source4()")
		body = append(body, setup...)
		switch {
		case form == "deferred":
			body = append(body, "defer "+call)
		case wrapOpen != "":
			body = append(body, wrapOpen, "\t"+call, wrapClose)
		default:
			body = append(body, call)
		}
		body = append(body, "lib."+other+"(x3)", "lib.Oth{}."+base+"(x4)")
		// for sinks the observing "sink id" is the SOURCE id of the data passed
		sites = []cidSite{{"1", LibPath, name, recv, ctx}, {"3", LibPath, other, "", "main"}, {"4", LibPath, base, "Oth", "main"}}
	case "sanitizer":
		setup, call, recv := cidCall(form, base, "x1")
		body = append(body, "x1 := rt.Source1()", "x3 := rt.Source3()", "x4 := rt.Source4()")
		body = append(body, setup...)
		body = append(body, "var y string")
		if wrapOpen != "" {
			body = append(body, wrapOpen, "\ty = "+call, wrapClose)
		} else {
			body = append(body, "y = "+call)
		}
		body = append(body, "rt.Sink1(y)", "z := lib."+other+"(x3)", "rt.Sink3(z)", "t := lib.Oth{}."+base+"(x4)", "rt.Sink4(t)")
		sites = []cidSite{{"1", LibPath, name, recv, ctx}, {"3", LibPath, other, "", "main"}, {"4", LibPath, base, "Oth", "main"}}
	case "validator":
		setup, call, recv := cidCall(form, base, "x1")
		body = append(body, "x1 := rt.Source1()", "x3 := rt.Source3()", "x4 := rt.Source4()")
		body = append(body, setup...)
		if wrapOpen != "" {
			body = append(body, wrapOpen, "\tif "+call+" {", "\t\trt.Sink1(x1)", "\t}", wrapClose)
		} else {
			body = append(body, "if "+call+" {", "\trt.Sink1(x1)", "}")
		}
		body = append(body, "if lib."+other+"(x3) {", "\trt.Sink3(x3)", "}", "if (lib.Oth{})."+base+"(x4) {", "\trt.Sink4(x4)", "}")
		sites = []cidSite{{"1", LibPath, name, recv, ctx}, {"3", LibPath, other, "", "main"}, {"4", LibPath, base, "Oth", "main"}}
	}
	exp := map[string]bool{}
	for _, s := range sites {
		if form == "iface" && spec.Receiver != "" && s.sink == "1" {
			// the receiver of an interface call can reasonably be rendered as the interface type or as the concrete type:
			// a receiver pattern is ambiguous there, the site is not judged
			continue
		}
		m := spec.matches(s)
		switch role {
		case "source", "sink":
			exp[s.sink] = m
		default: // sanitizer / validator: a matched call suppresses the flow
			exp[s.sink] = !m
		}
	}
	src := "package main\n\nimport (\n\t\"" + LibPath + "\"\n\t\"" + RTPath + "\"\n)\n\nvar _ = rt.Cond\n\n" + strings.Join(decls, "\n") + "\n\nfunc main() {\n" + indent(strings.Join(body, "\n"), 1) + "\n}\n"
	sig := fmt.Sprintf("cid[%s,%s,pkg=%q,method=%q,recv=%q,ctx=%q]", role, form, spec.Package, spec.Method, spec.Receiver, spec.Context)
	atoms := []string{"role:" + role, "form:" + form, "family:cid"}
	if spec.Receiver != "" {
		atoms = append(atoms, "recv-given")
	}
	if spec.Context != "" {
		atoms = append(atoms, "ctx-given")
	}
	if spec.Package == "" {
		atoms = append(atoms, "pkg-empty")
	}
	return CIDCase{Subject: Subject{Sig: sig, Atoms: atoms, Src: src}, Lib: cidLib, Role: role, Form: form, Spec: spec, Expected: exp}
}

package gen

import (
	"fmt"
	"strings"
)

// C19 alphabet: how a goroutine is launched x how (if at all) the launched function recovers.
var GoForms = []string{"named", "closure", "methodV", "methodP", "boundMV", "fvar", "ffield", "iface", "namedTwice", "nestedClosure"}
var RecForms = []string{"none", "deferClosure", "deferNamed", "deferMethod", "deferIndirect", "recoverNotDeferred", "deferOneBranch",
	"deferClosureVar", "deferNested", "deferRecoverDirect"}

// recExpect: must the entry function be reported? (it does not itself defer a function that calls recover)
var recMustReport = map[string]bool{"none": true, "deferIndirect": true, "recoverNotDeferred": true, "deferNested": true, "deferRecoverDirect": true}

func recStmts(rec string) string {
	switch rec {
	case "none":
		return ""
	case "deferClosure":
		return "\tdefer func() { recover() }()\n"
	case "deferNamed":
		return "\tdefer recoverer()\n"
	case "deferMethod":
		return "\tdefer RM{}.Rec()\n"
	case "deferIndirect":
		return "\tdefer callsRecoverer()\n"
	case "recoverNotDeferred":
		return "\trecover()\n"
	case "deferOneBranch":
		return "\tif rt.Cond() {\n\t\tdefer func() { recover() }()\n\t}\n"
	case "deferClosureVar":
		return "\trc := func() { recover() }\n\tdefer rc()\n"
	case "deferRecoverDirect":
		// recover is the deferred function itself, not called BY a deferred function: it does not stop the panic
		return "\tdefer recover()\n"
	case "deferNested":
		// the deferred closure does not call recover itself; a closure nested in it does (does not recover a panic of the entry)
		return "\tdefer func() { func() { recover() }() }()\n"
	}
	panic(rec)
}

// GoPanicProgram builds one C19 subject. EntryNames lists the SSA names (RelString(nil)-style suffixes) acceptable for the
// launched entry function in the report.
type GoPanicCase struct {
	Subject
	MustReport bool
	Entries    []string // acceptable reported function names (any one suffices)
}

func GoPanicFamily() []GoPanicCase {
	var out []GoPanicCase
	for _, g := range GoForms {
		for _, r := range RecForms {
			out = append(out, goPanicCase(g, r))
		}
	}
	return out
}

func goPanicCase(g, r string) GoPanicCase {
	var sb strings.Builder
	sb.WriteString(shapeHeader)
	sb.WriteString("func recoverer() { recover() }\nfunc callsRecoverer() { recoverer() }\ntype RM struct{}\nfunc (RM) Rec() { recover() }\n")
	sb.WriteString("type IW interface{ Run() }\ntype H struct{ F func() }\n")
	body := recStmts(r) + "\trt.Boom()\n"
	var entries []string
	launch := ""
	switch g {
	case "named":
		sb.WriteString("func worker() {\n" + body + "}\n")
		launch = "\tgo worker()\n"
		entries = []string{"worker"}
	case "namedTwice":
		sb.WriteString("func worker() {\n" + body + "}\n")
		launch = "\tif rt.Cond() {\n\t\tgo worker()\n\t}\n\tgo worker()\n"
		entries = []string{"worker"}
	case "closure":
		launch = "\tgo func() {\n" + indent(strings.TrimRight(body, "\n"), 1) + "\n\t}()\n"
		entries = []string{"main$1"}
	case "nestedClosure":
		launch = "\tfunc() {\n\t\tgo func() {\n" + indent(strings.TrimRight(body, "\n"), 2) + "\n\t\t}()\n\t}()\n"
		entries = []string{"main$1$1"}
	case "methodV":
		sb.WriteString("type WT struct{}\nfunc (WT) Run() {\n" + body + "}\n")
		launch = "\tgo WT{}.Run()\n"
		entries = []string{"(WT).Run"}
	case "methodP":
		sb.WriteString("type WT struct{ x int }\nfunc (w *WT) Run() {\n" + body + "}\n")
		launch = "\tw := &WT{}\n\tgo w.Run()\n"
		entries = []string{"(*WT).Run"}
	case "boundMV":
		sb.WriteString("type WT struct{}\nfunc (WT) Run() {\n" + body + "}\n")
		launch = "\tmv := WT{}.Run\n\tgo mv()\n"
		entries = []string{"(WT).Run", "(WT).Run$bound"}
	case "fvar":
		sb.WriteString("func worker() {\n" + body + "}\nfunc worker2() {\n" + body + "}\n")
		launch = "\tf := worker\n\tif rt.Cond() {\n\t\tf = worker2\n\t}\n\tgo f()\n"
		entries = []string{"worker", "worker2"}
	case "ffield":
		sb.WriteString("func worker() {\n" + body + "}\n")
		launch = "\th := &H{F: worker}\n\tgo h.F()\n"
		entries = []string{"worker"}
	case "iface":
		sb.WriteString("type WT struct{}\nfunc (WT) Run() {\n" + body + "}\n")
		launch = "\tvar i IW = WT{}\n\tgo i.Run()\n"
		entries = []string{"(WT).Run"}
	default:
		panic(g)
	}
	sb.WriteString("func main() {\n" + launch + "\trt.Wait()\n}\n")
	return GoPanicCase{
		Subject:    Subject{Sig: fmt.Sprintf("gopanic[%s,%s]", g, r), Atoms: []string{"go:" + g, "rec:" + r, "family:gopanic"}, Src: sb.String()},
		MustReport: recMustReport[r], Entries: entries,
	}
}

package gen

import (
	"fmt"
	"strings"
)

// C19 alphabet: how a goroutine is launched x how (if at all) the launched function recovers.
var GoForms = []string{"named", "closure", "methodV", "methodP", "boundMV", "fvar", "ffield", "iface", "namedTwice", "nestedClosure",
	"inHelper", "inMethod", "fromGoroutine", "generic", "closureCapturing", "inDeferred"}
var RecForms = []string{"none", "deferClosure", "deferNamed", "deferMethod", "deferIndirect", "recoverNotDeferred", "deferOneBranch",
	"deferClosureVar", "deferNested", "deferRecoverDirect"}

// recExpect: must the entry function be reported? (it does not itself defer a function that calls recover)
var recMustReport = map[string]bool{"none": true, "deferIndirect": true, "recoverNotDeferred": true, "deferNested": true, "deferRecoverDirect": true}

func recStmts(rec string) string {
	switch rec {
	case "none":
		return ""
	case "deferClosure":
		return "\tdefer func() { recover() }()\n"
	case "deferNamed":
		return "\tdefer recoverer()\n"
	case "deferMethod":
		return "\tdefer RM{}.Rec()\n"
	case "deferIndirect":
		return "\tdefer callsRecoverer()\n"
	case "recoverNotDeferred":
		return "\trecover()\n"
	case "deferOneBranch":
		return "\tif rt.Cond() {\n\t\tdefer func() { recover() }()\n\t}\n"
	case "deferClosureVar":
		return "\trc := func() { recover() }\n\tdefer rc()\n"
	case "deferRecoverDirect":
		// recover is the deferred function itself, not called BY a deferred function: it does not stop the panic
		return "\tdefer recover()\n"
	case "deferNested":
		// the deferred closure does not call recover itself; a closure nested in it does (does not recover a panic of the entry)
		return "\tdefer func() { func() { recover() }() }()\n"
	}
	panic(rec)
}

// GoPanicProgram builds one C19 subject. EntryNames lists the SSA names (RelString(nil)-style suffixes) acceptable for the
// launched entry function in the report.
type GoPanicCase struct {
	Subject
	MustReport bool
	Entries    []string // acceptable reported function names (any one suffices)
	// AnSrc / LibPath / LibSrc: for the package-path cells the ANALYSED program keeps the launched function and the go
	// statement in a library package with import path LibPath (main only calls it); Subject.Src, the native rendering, is
	// the same code inside package main (import paths do not exist at run time).
	AnSrc, LibPath, LibSrc string
}

// StdTopLevel are the first path components of the packages the may-panic tool leaves out (the standard library; plus
// golang.org/x). A package is excluded only if its path IS such a name or continues it with "/": LibPaths are paths that
// merely resemble them and therefore must be analysed.
var StdTopLevel = []string{"archive", "bufio", "builtin", "bytes", "cmd", "compress", "container", "context", "crypto", "database",
	"debug", "encoding", "errors", "expvar", "flag", "fmt", "go", "hash", "html", "image", "index", "internal", "io", "log", "math",
	"mime", "net", "os", "path", "plugin", "reflect", "regexp", "runtime", "sort", "strconv", "strings", "sync", "syscall", "text",
	"time", "unicode", "unsafe"}

func LibPaths() []string {
	var out []string
	for _, e := range StdTopLevel {
		out = append(out, e+"util/w", e+"-x")
	}
	return append(out, "gopkg.in/w.v1", "golang.org/xtra/w", "golang.org", "example.com/io/w", "example.com/internal/w", "w/io")
}

var libRecForms = []string{"none", "deferIndirect", "deferClosure", "deferNested"}


func GoPanicFamily() []GoPanicCase {
	var out []GoPanicCase
	for _, g := range GoForms {
		for _, r := range RecForms {
			out = append(out, goPanicCase(g, r))
		}
	}
	for _, lp := range LibPaths() {
		for _, r := range libRecForms {
			out = append(out, goPanicLibCase(lp, r))
		}
	}
	return out
}

func goPanicLibCase(lp, r string) GoPanicCase {
	helpers := "func recoverer() { recover() }\nfunc callsRecoverer() { recoverer() }\ntype RM struct{}\nfunc (RM) Rec() { recover() }\n"
	body := recStmts(r) + "\trt.Boom()\n"
	code := helpers + "func Worker() {\n" + body + "}\nfunc Spawn() {\n\tgo Worker()\n}\n"
	native := shapeHeader + code + "func main() {\n\tSpawn()\n\trt.Wait()\n}\n"
	lib := "package w\n\nimport \"" + RTPath + "\"\n\nvar _ = rt.Cond\n\n" + code
	an := "package main\n\nimport \"" + RTPath + "\"\nimport w \"" + lp + "\"\n\nvar _ = rt.Cond\n\nfunc main() {\n\tw.Spawn()\n\trt.Wait()\n}\n"
	return GoPanicCase{
		Subject:    Subject{Sig: fmt.Sprintf("gopanic[lib:%s,%s]", lp, r), Atoms: []string{"go:lib", "libpath:" + lp, "rec:" + r, "family:gopanic"}, Src: native},
		MustReport: recMustReport[r], Entries: []string{"Worker", lp + ".Worker"},
		AnSrc:      an, LibPath: lp, LibSrc: lib,
	}
}

func goPanicCase(g, r string) GoPanicCase {
	var sb strings.Builder
	sb.WriteString(shapeHeader)
	sb.WriteString("func recoverer() { recover() }\nfunc callsRecoverer() { recoverer() }\ntype RM struct{}\nfunc (RM) Rec() { recover() }\n")
	sb.WriteString("type IW interface{ Run() }\ntype H struct{ F func() }\n")
	body := recStmts(r) + "\trt.Boom()\n"
	var entries []string
	launch := ""
	switch g {
	case "named":
		sb.WriteString("func worker() {\n" + body + "}\n")
		launch = "\tgo worker()\n"
		entries = []string{"worker"}
	case "namedTwice":
		sb.WriteString("func worker() {\n" + body + "}\n")
		launch = "\tif rt.Cond() {\n\t\tgo worker()\n\t}\n\tgo worker()\n"
		entries = []string{"worker"}
	case "closure":
		launch = "\tgo func() {\n" + indent(strings.TrimRight(body, "\n"), 1) + "\n\t}()\n"
		entries = []string{"main$1"}
	case "nestedClosure":
		launch = "\tfunc() {\n\t\tgo func() {\n" + indent(strings.TrimRight(body, "\n"), 2) + "\n\t\t}()\n\t}()\n"
		entries = []string{"main$1$1"}
	case "methodV":
		sb.WriteString("type WT struct{}\nfunc (WT) Run() {\n" + body + "}\n")
		launch = "\tgo WT{}.Run()\n"
		entries = []string{"(WT).Run"}
	case "methodP":
		sb.WriteString("type WT struct{ x int }\nfunc (w *WT) Run() {\n" + body + "}\n")
		launch = "\tw := &WT{}\n\tgo w.Run()\n"
		entries = []string{"(*WT).Run"}
	case "boundMV":
		sb.WriteString("type WT struct{}\nfunc (WT) Run() {\n" + body + "}\n")
		launch = "\tmv := WT{}.Run\n\tgo mv()\n"
		entries = []string{"(WT).Run", "(WT).Run$bound"}
	case "fvar":
		sb.WriteString("func worker() {\n" + body + "}\nfunc worker2() {\n" + body + "}\n")
		launch = "\tf := worker\n\tif rt.Cond() {\n\t\tf = worker2\n\t}\n\tgo f()\n"
		entries = []string{"worker", "worker2"}
	case "ffield":
		sb.WriteString("func worker() {\n" + body + "}\n")
		launch = "\th := &H{F: worker}\n\tgo h.F()\n"
		entries = []string{"worker"}
	case "iface":
		sb.WriteString("type WT struct{}\nfunc (WT) Run() {\n" + body + "}\n")
		launch = "\tvar i IW = WT{}\n\tgo i.Run()\n"
		entries = []string{"(WT).Run"}
	case "inHelper":
		// the go statement is in a function other than main
		sb.WriteString("func worker() {\n" + body + "}\nfunc spawn() {\n\tgo worker()\n}\n")
		launch = "\tspawn()\n"
		entries = []string{"worker"}
	case "inMethod":
		// the go statement is in a method, launching another method of the same receiver
		sb.WriteString("type WT struct{ x int }\nfunc (w *WT) Run() {\n" + body + "}\nfunc (w *WT) Start() {\n\tgo w.Run()\n}\n")
		launch = "\t(&WT{}).Start()\n"
		entries = []string{"(*WT).Run"}
	case "fromGoroutine":
		// a (recovering) goroutine launches the panicking one
		sb.WriteString("func worker() {\n" + body + "}\n")
		launch = "\tgo func() {\n\t\tdefer func() { recover() }()\n\t\tgo worker()\n\t}()\n"
		entries = []string{"worker"}
	case "generic":
		sb.WriteString("func gworker[T any]() {\n" + body + "}\n")
		launch = "\tgo gworker[int]()\n"
		entries = []string{"gworker[int]", "gworker"}
	case "closureCapturing":
		// the closure captures a variable, so the launched value is a MakeClosure with bindings
		launch = "\tn := 0\n\tgo func() {\n\t\tn++\n" + indent(strings.TrimRight(body, "\n"), 1) + "\n\t}()\n"
		entries = []string{"main$1"}
	case "inDeferred":
		// the go statement is in a deferred closure of main
		sb.WriteString("func worker() {\n" + body + "}\n")
		launch = "\tdefer func() {\n\t\tgo worker()\n\t\trt.Wait()\n\t}()\n"
		entries = []string{"worker"}
	default:
		panic(g)
	}
	sb.WriteString("func main() {\n" + launch + "\trt.Wait()\n}\n")
	return GoPanicCase{
		Subject:    Subject{Sig: fmt.Sprintf("gopanic[%s,%s]", g, r), Atoms: []string{"go:" + g, "rec:" + r, "family:gopanic"}, Src: sb.String()},
		MustReport: recMustReport[r], Entries: entries,
	}
}

package gen

import (
	"fmt"
	"strings"
)

// Subject is any analysable program: a signature, atoms for known-finding cores, and the analysed main source.
type Subject struct {
	Sig   string
	Atoms []string
	Src   string // complete source of package main (imports zsubj/rt)
}

const shapeHeader = "package main\n\nimport \"" + RTPath + "\"\n\nvar _ = rt.Cond\n\n"

const shapeCommon = `type N struct {
	Next *N
	V    string
	Kids []*N
	M    map[string]*N
	F    func(*N, string) (*N, string)
}
type Fn = func(*N, string) (*N, string)
type Caller interface{ Call(*N, string) (*N, string) }
func apply(fn Fn, a *N, b string) (*N, string) { return fn(a, b) }
`

// Realisations of a call edge caller->callee.
var EdgeKinds = []string{"direct", "closure", "iface", "fparam", "mvalue"}

func edgeCall(kind, callee string, self bool, i int) string {
	switch kind {
	case "direct":
		return fmt.Sprintf("r, t = %s(r, t)", callee)
	case "closure":
		if self {
			return fmt.Sprintf("var c%d Fn\nc%d = func(a *N, b string) (*N, string) {\n\tif rt.Cond() {\n\t\treturn a, b\n\t}\n\treturn c%d(a, b)\n}\nr, t = c%d(r, t)", i, i, i, i)
		}
		return fmt.Sprintf("c%d := func(a *N, b string) (*N, string) { return %s(a, b) }\nr, t = c%d(r, t)", i, callee, i)
	case "iface":
		return fmt.Sprintf("var i%d Caller = I%s{}\nr, t = i%d.Call(r, t)", i, callee, i)
	case "fparam":
		return fmt.Sprintf("r, t = apply(%s, r, t)", callee)
	case "mvalue":
		return fmt.Sprintf("mv%d := I%s{}.Call\nr, t = mv%d(r, t)", i, callee, i)
	}
	panic(kind)
}

// CallGraphShapes enumerates all call graphs over funcs (main calls funcs[0]); every function reachable; each edge
// realised in one of EdgeKinds with at most maxDev non-direct realisations.
func CallGraphShapes(nfuncs int, maxDev int) []Subject {
	names := []string{"f", "g", "h"}[:nfuncs]
	nedges := nfuncs * nfuncs
	var out []Subject
	for mask := 0; mask < 1<<nedges; mask++ {
		// reachability from f
		reach := map[int]bool{0: true}
		for changed := true; changed; {
			changed = false
			for a := 0; a < nfuncs; a++ {
				for b := 0; b < nfuncs; b++ {
					if reach[a] && !reach[b] && mask&(1<<(a*nfuncs+b)) != 0 {
						reach[b] = true
						changed = true
					}
				}
			}
		}
		if len(reach) != nfuncs {
			continue
		}
		var edges [][2]int
		for a := 0; a < nfuncs; a++ {
			for b := 0; b < nfuncs; b++ {
				if mask&(1<<(a*nfuncs+b)) != 0 {
					edges = append(edges, [2]int{a, b})
				}
			}
		}
		kinds := make([]int, len(edges))
		var rec func(pos, dev int)
		rec = func(pos, dev int) {
			if pos == len(edges) {
				out = append(out, renderCallGraph(names, edges, kinds))
				return
			}
			kinds[pos] = 0
			rec(pos+1, dev)
			if dev < maxDev {
				for k := 1; k < len(EdgeKinds); k++ {
					kinds[pos] = k
					rec(pos+1, dev+1)
				}
				kinds[pos] = 0
			}
		}
		rec(0, 0)
	}
	return out
}

func renderCallGraph(names []string, edges [][2]int, kinds []int) Subject {
	var sb strings.Builder
	sb.WriteString(shapeHeader)
	sb.WriteString(shapeCommon)
	var sigParts, atoms []string
	for _, n := range names {
		fmt.Fprintf(&sb, "type I%s struct{}\nfunc (I%s) Call(a *N, b string) (*N, string) { return %s(a, b) }\n", n, n, n)
	}
	for a, n := range names {
		fmt.Fprintf(&sb, "func %s(n *N, s string) (*N, string) {\n\tif rt.Cond() {\n\t\treturn n, s\n\t}\n\tr, t := n, s\n", n)
		for i, e := range edges {
			if e[0] != a {
				continue
			}
			sb.WriteString(indent(edgeCall(EdgeKinds[kinds[i]], names[e[1]], e[0] == e[1], i), 1))
			sb.WriteString("\n")
		}
		sb.WriteString("\treturn r, t\n}\n")
	}
	for i, e := range edges {
		sigParts = append(sigParts, fmt.Sprintf("%s-%s>%s", names[e[0]], EdgeKinds[kinds[i]], names[e[1]]))
		atoms = append(atoms, "edge:"+EdgeKinds[kinds[i]])
		if e[0] == e[1] {
			atoms = append(atoms, "self:"+EdgeKinds[kinds[i]])
		}
	}
	nd := 0
	for _, k := range kinds {
		if k != 0 {
			nd++
		}
	}
	for j := 1; j <= nd; j++ {
		atoms = append(atoms, fmt.Sprintf("nd>=%d", j))
	}
	atoms = append(atoms, fmt.Sprintf("edges:%d", len(edges)))
	sb.WriteString("func main() {\n\tn := &N{}\n\ts := rt.Source1()\n\tr, t := f(n, s)\n\trt.Sink1(r)\n\trt.Sink1(t)\n}\n")
	return Subject{Sig: "cg[" + strings.Join(sigParts, ",") + "]", Atoms: append(atoms, "family:callgraph"), Src: sb.String()}
}

// Snippets are single programs aimed at the mechanisms C07 names: recursive data, defers, generics, bodyless
// functions, every SSA instruction kind.
var snippetBodies = map[string]string{
	"rec.list": `type L struct{ Next *L; V string }
func walk(l *L) string { if l == nil { return "" }; return l.V + walk(l.Next) }
func main() { l := &L{V: rt.Source1()}; l.Next = &L{Next: l}; rt.Sink1(walk(l)) }`,
	"rec.tree": `type Tr struct{ L, R *Tr; V string }
func sum(t *Tr) string { if t == nil { return "" }; return sum(t.L) + t.V + sum(t.R) }
func main() { t := &Tr{V: rt.Source1()}; t.L = &Tr{R: t}; rt.Sink1(sum(t)) }`,
	"rec.mutualStructs": `type A struct{ B *B; V string }
type B struct{ A *A; W []A }
func main() { a := &A{V: rt.Source1()}; a.B = &B{A: a, W: []A{*a}}; rt.Sink1(a.B.W[0].V); rt.Sink1(a) }`,
	"rec.funcField": `type S struct{ F func(*S) *S; V string }
func main() { s := &S{V: rt.Source1()}; s.F = func(x *S) *S { return x.F(x) }; if rt.Cond() { rt.Sink1(s.F(s)) }; rt.Sink1(s) }`,
	"rec.mapSelf": `type M map[string]M
func main() { m := M{}; m[rt.Source1()] = m; for k, v := range m { rt.Sink1(k); rt.Sink1(v) } }`,
	"rec.sliceSelf": `type SS []SS
func main() { s := SS{nil}; s[0] = s; rt.Sink1(s); rt.Sink1(rt.Source1()) }`,
	"rec.iface": `type R interface{ Next() R; Val() string }
type RI struct{ n R; v string }
func (r *RI) Next() R { return r.n }
func (r *RI) Val() string { return r.v }
func main() { a := &RI{v: rt.Source1()}; a.n = a; var r R = a; for rt.Cond() { r = r.Next() }; rt.Sink1(r.Val()) }`,
	"rec.direct": `func f(s string, n int) string { if n == 0 { return s }; return f(s+"a", n-1) }
func main() { rt.Sink1(f(rt.Source1(), 3)) }`,
	"rec.mutual": `func f(s string, n int) string { if n == 0 { return s }; return g(s, n-1) }
func g(s string, n int) string { return f(s+"b", n) }
func main() { rt.Sink1(f(rt.Source1(), 3)) }`,
	"rec.closureSelf": `func main() { var f func(string, int) string; f = func(s string, n int) string { if n == 0 { return s }; return f(s, n-1) }; rt.Sink1(f(rt.Source1(), 2)) }`,
	"rec.closureReturnsClosure": `func mk(s string) func() func() string { return func() func() string { return func() string { return s } } }
func main() { rt.Sink1(mk(rt.Source1())()()) }`,
	"rec.ycomb": `type Y func(Y) func(string) string
func main() { y := Y(func(self Y) func(string) string { return func(s string) string { if rt.Cond() { return s }; return self(self)(s) } }); rt.Sink1(y(y)(rt.Source1())) }`,
	"defer.loop": `func main() { s := rt.Source1(); for rt.Cond() { defer rt.Sink1(s) } }`,
	"defer.loopTwo": `func main() { s := rt.Source1(); for rt.Cond() { defer rt.Sink1(s); if rt.Cond() { return }; defer rt.Sink3(s) } }`,
	"defer.loopBranches": `func main() { s := rt.Source1(); for rt.Cond() { if rt.Cond() { defer rt.Sink1(s) } else { defer rt.Sink3(s) } } }`,
	"defer.loopNested": `func main() { s := rt.Source1(); for rt.Cond() { defer rt.Sink1(s); for rt.Cond() { defer rt.Sink3(s) } } }`,
	"defer.loopClosure": `func main() { s := rt.Source1(); for rt.Cond() { defer func() { rt.Sink1(s) }() } }`,
	"defer.recursive": `func f(s string, n int) { defer rt.Sink1(s); if n > 0 { f(s, n-1) } }
func main() { f(rt.Source1(), 2) }`,
	"defer.nested": `func main() { s := rt.Source1(); defer func() { defer func() { defer rt.Sink1(s) }() }() }`,
	"defer.recover": `func main() { s := rt.Source1(); defer func() { if r := recover(); r != nil { rt.Sink1(r) } }(); panic(s) }`,
	"defer.namedResult": `func f(s string) (r string) { defer func() { r = s }(); return "a" }
func main() { rt.Sink1(f(rt.Source1())) }`,
	"defer.method": `type D struct{ v string }
func (d *D) Close() { rt.Sink1(d.v) }
func main() { d := &D{}; defer d.Close(); d.v = rt.Source1() }`,
	"defer.ifaceInLoop": `type C interface{ Close() }
type D struct{ v string }
func (d *D) Close() { rt.Sink1(d.v) }
func main() { for rt.Cond() { var c C = &D{v: rt.Source1()}; defer c.Close() } }`,
	"defer.goto": `func main() { s := rt.Source1(); i := 0
L:
	defer rt.Sink1(s)
	i++
	if i < 2 { goto L }
}`,
	// determinism under a depth bound (unsafe-max-depth): the same node is reached through a short and a long route
	"det.depthDiamond": `func short(s string) string { return s }
func long1(s string) string { return s }
func long2(s string) string { return long1(s) }
func long3(s string) string { return long2(s) }
func tail2(s string) { rt.Sink1(s) }
func tail1(s string) { tail2(s) }
func tail(s string) { tail1(s) }
func main() { x := rt.Source1(); a := short(x); b := long3(x); v := a; if rt.Cond() { v = b }; tail(v); y := rt.Source3(); c := short(y); d := long3(y); w := c; if rt.Cond() { w = d }; tail(w) }`,
	// recursive types whose recursion goes through an embedded field / a pointer type naming itself
	"rec.embeddedSelf": `type Frame struct { *Frame; name string }
func top(f *Frame) string { for f.Frame != nil { f = f.Frame }; return f.name }
func main() { f := &Frame{name: rt.Source1()}; g := &Frame{Frame: f}; rt.Sink1(top(g)) }`,
	"rec.pointerSelf": `type P *P
func idp(p P) P { return p }
func main() { var p P; q := idp(p); rt.Sink1(q); rt.Sink1(rt.Source1()) }`,
	// whole-program escape fixpoint: a summary that grows in a second round, used from two sibling blocks of a
	// mutually recursive caller
	"esc.recTwoSites": `type ET struct{ v string }
var EG *ET
func leakFirst(a, b *ET, k int) { EG = a; if k > 0 { twoSites(nil, nil, b, k-1) } }
func twoSites(x, y, w *ET, k int) { if rt.Cond() { leakFirst(w, x, k) } else { leakFirst(nil, y, k) } }
func main() { x := &ET{rt.Source1()}; y := &ET{"b"}; w := &ET{"c"}; twoSites(x, y, w, 3); rt.Sink1(EG) }`,
	"esc.recThreeSites": `type ET struct{ v string }
var EG *ET
func leak1(a, b, c *ET, k int) { EG = a; if k > 0 { sites(nil, nil, b, c, k-1) } }
func sites(x, y, z, w *ET, k int) { switch { case rt.Cond(): leak1(w, x, nil, k); case rt.Cond(): leak1(nil, y, w, k); default: leak1(nil, nil, z, k) } }
func main() { x := &ET{rt.Source1()}; y := &ET{"b"}; z := &ET{"d"}; w := &ET{"c"}; sites(x, y, z, w, 3); rt.Sink1(EG) }`,
	// field-sensitivity shapes: one struct value whose fields take different routes through a callee
	"fs.convertFields": `type In struct{ User, Path string }
type Out struct{ Who, Where string }
func sourceS1() In { return In{User: "u", Path: "p"} }
func convert(x In) Out { var y Out; y.Who = x.User; y.Where = x.Path; return y }
func main() { x := sourceS1(); y := convert(x); rt.Sink1(y.Who); rt.Sink3(y.Where) }`,
	"fs.convertPtr": `type In struct{ User, Path string }
type Out struct{ Who, Where string }
func sourceS1() *In { return &In{User: "u", Path: "p"} }
func convert(x *In, y *Out) { y.Who = x.User; y.Where = x.Path }
func main() { x := sourceS1(); y := &Out{}; convert(x, y); rt.Sink1(y.Who); rt.Sink3(y.Where) }`,
	"fs.swapNested": `type In struct{ A struct{ U, V string }; B string }
type Out struct{ P, Q, R string }
func sourceS1() In { return In{} }
func conv(x In) Out { return Out{P: x.B, Q: x.A.V, R: x.A.U} }
func main() { x := sourceS1(); y := conv(x); rt.Sink1(y.P); rt.Sink3(y.Q); rt.Sink4(y.R) }`,
	"fs.oneFieldTainted": `type In struct{ User, Path string }
type Out struct{ Who, Where string }
func convert(x In) Out { var y Out; y.Who = x.User; y.Where = x.Path; return y }
func main() { x := In{User: rt.Source1(), Path: "p"}; y := convert(x); rt.Sink1(y.Who); rt.Sink3(y.Where) }`,
	"gen.recursive": `func gr[T any](x T, n int) T { if n == 0 { return x }; return gr(x, n-1) }
func main() { rt.Sink1(gr(rt.Source1(), 2)); rt.Sink1(gr(1, 2)) }`,
	"gen.typeMethod": `type Box[T any] struct{ v T }
func (b *Box[T]) Get() T { return b.v }
func (b *Box[T]) Set(x T) { b.v = x }
func main() { b := &Box[string]{}; b.Set(rt.Source1()); rt.Sink1(b.Get()); c := &Box[*Box[string]]{}; c.Set(b); rt.Sink1(c.Get().Get()) }`,
	"gen.constraint": `type Str interface{ ~string | ~[]byte }
func cat[T Str](a, b T) string { return string(a) + string(b) }
func main() { rt.Sink1(cat(rt.Source1(), "x")); rt.Sink1(cat([]byte(rt.Source1()), []byte("y"))) }`,
	"gen.twice": `func id[T any](x T) T { return x }
func main() { rt.Sink1(id(rt.Source1())); rt.Sink1(id(&[]string{rt.Source1()})) ; rt.Sink1(id[any](rt.Source1())) }`,
	"gen.funcParam": `func mapf[T, U any](xs []T, f func(T) U) []U { var r []U; for _, x := range xs { r = append(r, f(x)) }; return r }
func main() { rt.Sink1(mapf([]string{rt.Source1()}, func(s string) []byte { return []byte(s) })) }`,
	"bodyless": `func ext(s string) string
func main() { rt.Sink1(ext(rt.Source1())) }`,
	"bodylessPtr": `func ext2(p *string, q *string)
func main() { s := rt.Source1(); var t string; ext2(&s, &t); rt.Sink1(t) }`,
	"ins.select": `func main() { a := make(chan string, 1); b := make(chan string, 1); a <- rt.Source1()
	select { case x := <-a: rt.Sink1(x); case b <- "k": rt.Sink1(<-b); default: } }`,
	"ins.selectLoop": `func main() { a := make(chan string, 1); d := make(chan bool, 1); s := rt.Source1()
	for rt.Cond() { select { case a <- s: case x, ok := <-a: rt.Sink1(x); _ = ok; case <-d: return } } }`,
	"ins.rangeString": `func main() { s := rt.Source1(); for i, r := range s { rt.Sink1(r); _ = i } }`,
	"ins.rangeMap": `func main() { m := map[string][]string{rt.Source1(): {rt.Source1()}}; for k, v := range m { rt.Sink1(k); rt.Sink1(v) } }`,
	"ins.rangeChan": `func main() { c := make(chan string, 1); c <- rt.Source1(); close(c); for x := range c { rt.Sink1(x) } }`,
	"ins.rangeInt": `func main() { s := rt.Source1(); for i := range 3 { s += "a"; _ = i }; rt.Sink1(s) }`,
	"ins.rangeFuncLike": `func main() { s := []string{rt.Source1()}; for i := range s { rt.Sink1(s[i]) }; for range s { rt.Sink1(s) } }`,
	"ins.goto": `func main() { s := rt.Source1(); i := 0
L:
	if i < 2 { i++; s += "a"; goto L }
	rt.Sink1(s) }`,
	"ins.labeledBreak": `func main() { s := rt.Source1()
outer:
	for rt.Cond() { for rt.Cond() { if rt.Cond() { break outer }; if rt.Cond() { continue outer }; s += "a" } }
	rt.Sink1(s) }`,
	"ins.typeSwitch": `type E struct{ m string }
func (e E) Error() string { return e.m }
func main() { var x any = rt.Source1(); if rt.Cond() { x = E{rt.Source1()} }; if rt.Cond() { x = 1 }
	switch v := x.(type) { case string: rt.Sink1(v); case error: rt.Sink1(v.Error()); case int, int64: rt.Sink1(v); case nil: default: rt.Sink1(v) } }`,
	"ins.complex": `func main() { s := rt.Source1(); c := complex(float64(len(s)), 2); rt.Sink1(real(c)); rt.Sink1(imag(c)); rt.Sink1(c * c) }`,
	"ins.sliceToArrayPtr": `func main() { s := []string{rt.Source1(), "b"}; p := (*[2]string)(s); rt.Sink1(p[0]); a := [2]string(s); rt.Sink1(a) }`,
	"ins.minmaxclear": `func main() { s := rt.Source1(); m := map[string]string{s: s}; rt.Sink1(min(s, "b")); rt.Sink1(max(s, "b", "c")); clear(m); rt.Sink1(m); x := []string{s}; clear(x); rt.Sink1(x) }`,
	"ins.builtins": `func main() { s := rt.Source1(); b := []byte(s); c := make([]byte, 4, 8); n := copy(c, b); c = append(c, b...); c = append(c, s...)
	rt.Sink1(n); rt.Sink1(len(c)); rt.Sink1(cap(c)); p := new(string); *p = s; rt.Sink1(p); print(s); println(s); m := map[string]int{s: 1}; delete(m, s); rt.Sink1(m) }`,
	"ins.unsafeFree": `func main() { s := rt.Source1(); x := [3]string{s}; y := x[:]; z := y[1:2:3]; rt.Sink1(z); var i any = x; if a, ok := i.([3]string); ok { rt.Sink1(a[0]) } }`,
	"ins.bitops": `func main() { s := rt.Source1(); n := len(s); n = n<<2 | n>>1&^3 ^ 5; n %= 7; u := uint8(n); f := float32(u); rt.Sink1(-f); rt.Sink1(^n); rt.Sink1(!(n > 2)) }`,
	"ins.stringOps": `func main() { s := rt.Source1(); rt.Sink1(s[1]); rt.Sink1(s[1:2]); rt.Sink1([]rune(s)); rt.Sink1(string(rune(len(s)))); rt.Sink1(s < "b"); rt.Sink1(s == "b") }`,
	"ins.chanDirs": `func prod(c chan<- string, s string) { c <- s }
func cons(c <-chan string) string { return <-c }
func main() { c := make(chan string, 1); prod(c, rt.Source1()); rt.Sink1(cons(c)) }`,
	"ins.go": `func w(c chan string, s string) { c <- s }
func main() { c := make(chan string); go w(c, rt.Source1()); go func() { c <- "x" }(); rt.Sink1(<-c) }`,
	"ins.goIface": `type W interface{ Run(chan string) }
type WI struct{ s string }
func (w WI) Run(c chan string) { c <- w.s }
func main() { c := make(chan string); var w W = WI{rt.Source1()}; go w.Run(c); f := w.Run; go f(c); rt.Sink1(<-c) }`,
	"ins.panicValue": `func main() { defer func() { rt.Sink1(recover()) }(); var m map[string]string; m["a"] = rt.Source1() }`,
	"ins.methodExprIface": `type G interface{ Get() string }
type GI struct{ v string }
func (g GI) Get() string { return g.v }
func main() { f := G.Get; rt.Sink1(f(GI{rt.Source1()})); h := (*GI).Get; rt.Sink1(h(&GI{rt.Source1()})) }`,
	"ins.embeddedIface": `type G interface{ Get() string }
type W struct{ G }
type GI struct{ v string }
func (g GI) Get() string { return g.v }
func main() { w := W{GI{rt.Source1()}}; rt.Sink1(w.Get()); var g G = w; rt.Sink1(g.Get()); var e W; if rt.Cond() { rt.Sink1(e.Get()) } }`,
	"ins.anonStructs": `func main() { x := struct{ A struct{ B []struct{ C string } } }{}; x.A.B = append(x.A.B, struct{ C string }{rt.Source1()}); rt.Sink1(x.A.B[0].C); rt.Sink1(x) }`,
	"ins.arrayOfArrays": `func main() { var a [2][2][]string; a[1][0] = []string{rt.Source1()}; b := a; rt.Sink1(b[1][0][0]); p := &a[1]; rt.Sink1(p[0]) }`,
	"ins.funcInMapAndSlice": `func main() { s := rt.Source1(); m := map[string]func() string{"k": func() string { return s }}; fs := []func() string{m["k"]}; rt.Sink1(fs[0]()); rt.Sink1(m["z"]) }`,
	"ins.closureLoopVar": `func main() { var fs []func() string; for _, s := range []string{rt.Source1(), "b"} { fs = append(fs, func() string { return s }) }; for _, f := range fs { rt.Sink1(f()) } }`,
	"ins.initFuncs": `var G = rt.Source1()
var H = func() string { return G }()
func init() { G += "a" }
func init() { H += G }
func main() { rt.Sink1(H) }`,
	"ins.uncalledClosure": `func main() { s := rt.Source1(); f := func() string { return s }; rt.Sink1(f) }`,
	"ins.closureViaGlobal": `var GF func() string
func main() { s := rt.Source1(); GF = func() string { return s }; rt.Sink1(GF()) }`,
	"ins.globalInClosure": `var GS string
func main() { s := rt.Source1(); func() { GS = s }(); rt.Sink1(GS) }`,
	"ins.emptyMain": `func main() {}`,
	"ins.onlySource": `func main() { _ = rt.Source1() }`,
	"ins.sinkConst": `func main() { rt.Sink1("c"); rt.Sink1(nil); rt.Sink1(1.5) }`,
	"ins.sourceInLoopToSelf": `func main() { s := ""; for rt.Cond() { rt.Sink1(s); s = rt.Source1() + s } }`,
	"ins.infiniteLoop": `func main() { s := rt.Source1(); for { s += "a"; if rt.Cond() { break } }; rt.Sink1(s); for { } }`,
	"ins.switchFallthrough": `func main() { s := rt.Source1(); switch len(s) { case 0: s += "a"; fallthrough; case 1: rt.Sink1(s); default: s = "" }; rt.Sink1(s) }`,
	"ins.ptrToPtr": `func main() { s := rt.Source1(); p := &s; pp := &p; ppp := &pp; ***ppp = **pp + "a"; rt.Sink1(***ppp); var np ***string; if rt.Cond() { rt.Sink1(***np) } }`,
	"ins.variadicIface": `func v(xs ...any) any { if len(xs) == 0 { return nil }; return xs[0] }
func main() { rt.Sink1(v()); rt.Sink1(v(rt.Source1(), 1)); a := []any{rt.Source1()}; rt.Sink1(v(a...)) }`,
	"ins.methodOnSliceAndMapAndFunc": `type SL []string
func (s SL) First() string { return s[0] }
type MP map[string]string
func (m MP) Get(k string) string { return m[k] }
type FN func() string
func (f FN) Call() string { return f() }
func main() { s := rt.Source1(); rt.Sink1(SL{s}.First()); rt.Sink1(MP{"k": s}.Get("k")); rt.Sink1(FN(func() string { return s }).Call()) }`,
}

// Snippets returns the snippet programs in a stable order.
func Snippets() []Subject {
	var keys []string
	for k := range snippetBodies {
		keys = append(keys, k)
	}
	sortStrings(keys)
	var out []Subject
	for _, k := range keys {
		out = append(out, Subject{Sig: "snip[" + k + "]", Atoms: []string{"snip:" + k, "family:snippet"}, Src: shapeHeader + snippetBodies[k] + "\n"})
	}
	return out
}

func sortStrings(a []string) {
	for i := 1; i < len(a); i++ {
		for j := i; j > 0 && a[j] < a[j-1]; j-- {
			a[j], a[j-1] = a[j-1], a[j]
		}
	}
}

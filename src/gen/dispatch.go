package gen

import (
	"fmt"
	"strings"
)

// DispatchForms are the ways a function body can transfer control to a target function (C12, C18).
var DispatchForms = []string{"static", "fvar", "ffield", "fslice", "fmap", "closure", "mvalue", "mexpr", "iface", "ifacePtr", "embedded",
	"generic", "deferred", "go", "goClosure", "fparam", "deferArg", "goArg", "ifaceWiden", "globalInit", "retFunc", "chanFunc", "ifaceTwo", "ifaceShared", "mapKeyIface", "mapKeyPtr", "mapKeyChan", "mapKeyField", "namedArrRange", "namedArrIndex", "namedArrIface", "namedSlice", "namedMap", "ifaceMV", "ifaceMexpr"}

type dform struct {
	decls []string
	stmts []string
}

const enter = "\trt.Enter(%q)\n\tdefer rt.Leave()\n"

// dispatch realises "call target() from here" in the given form; n makes helper names unique.
func dispatch(form string, n int, target string) dform {
	var f dform
	d := func(format string, a ...any) { f.decls = append(f.decls, fmt.Sprintf(format, a...)) }
	s := func(format string, a ...any) { f.stmts = append(f.stmts, fmt.Sprintf(format, a...)) }
	switch form {
	case "static":
		s("%s()", target)
	case "fvar":
		s("fv%d := %s", n, target)
		s("if rt.Cond() {\n\tfv%d = Other\n}", n)
		s("fv%d()", n)
	case "ffield":
		d("type H%d struct{ F func() }", n)
		s("h%d := &H%d{F: %s}", n, n, target)
		s("h%d.F()", n)
	case "fslice":
		s("fs%d := []func(){Other, %s}", n, target)
		s("fs%d[1]()", n)
	case "fmap":
		s("fm%d := map[string]func(){\"k\": %s}", n, target)
		s("fm%d[\"k\"]()", n)
	case "closure":
		s("c%d := func() {\n"+strings.ReplaceAll(fmt.Sprintf(enter, fmt.Sprintf("clo%d", n)), "\t", "\t")+"\t%s()\n}", n, target)
		s("c%d()", n)
	case "mvalue":
		d("type W%d struct{}\nfunc (W%d) M() {\n"+fmt.Sprintf(enter, fmt.Sprintf("W%d.M", n))+"\t%s()\n}", n, n, target)
		s("mv%d := W%d{}.M", n, n)
		s("mv%d()", n)
	case "mexpr":
		d("type W%d struct{}\nfunc (W%d) M() {\n"+fmt.Sprintf(enter, fmt.Sprintf("W%d.M", n))+"\t%s()\n}", n, n, target)
		s("me%d := W%d.M", n, n)
		s("me%d(W%d{})", n, n)
	case "iface":
		d("type W%d struct{}\nfunc (W%d) M() {\n"+fmt.Sprintf(enter, fmt.Sprintf("W%d.M", n))+"\t%s()\n}", n, n, target)
		d("type V%d struct{}\nfunc (V%d) M() {\n"+fmt.Sprintf(enter, fmt.Sprintf("V%d.M", n))+"\tOther()\n}", n, n)
		s("var i%d I = W%d{}", n, n)
		s("if rt.Cond() {\n\ti%d = V%d{}\n}", n, n)
		s("i%d.M()", n)
	case "ifaceMV":
		// bound method value of an interface value (I.M$bound)
		d("type W%d struct{}\nfunc (W%d) M() {\n"+fmt.Sprintf(enter, fmt.Sprintf("W%d.M", n))+"\t%s()\n}", n, n, target)
		s("var ib%d I = W%d{}", n, n)
		s("bm%d := ib%d.M", n, n)
		s("bm%d()", n)
	case "ifaceMexpr":
		// method expression of an interface type (I.M$thunk)
		d("type W%d struct{}\nfunc (W%d) M() {\n"+fmt.Sprintf(enter, fmt.Sprintf("W%d.M", n))+"\t%s()\n}", n, n, target)
		s("var ie%d I = W%d{}", n, n)
		s("te%d := I.M", n)
		s("te%d(ie%d)", n, n)
	case "ifacePtr":
		d("type P%d struct{ x int }\nfunc (p *P%d) M() {\n"+fmt.Sprintf(enter, fmt.Sprintf("P%d.M", n))+"\t%s()\n}", n, n, target)
		s("var i%d I = &P%d{}", n, n)
		s("i%d.M()", n)
	case "embedded":
		d("type W%d struct{}\nfunc (W%d) M() {\n"+fmt.Sprintf(enter, fmt.Sprintf("W%d.M", n))+"\t%s()\n}", n, n, target)
		d("type E%d struct{ I }", n)
		s("e%d := E%d{W%d{}}", n, n, n)
		s("e%d.M()", n)
	case "generic":
		d("func G%d[X any](x X) {\n"+fmt.Sprintf(enter, fmt.Sprintf("G%d", n))+"\t_ = x\n\t%s()\n}", n, target)
		s("G%d[int](1)", n)
		s("G%d(\"s\")", n)
	case "deferred":
		s("defer %s()", target)
	case "go":
		s("w%d := rt.GoBegin()", n)
		s("go %s()", target)
		s("rt.GoEnd(w%d)", n)
	case "goClosure":
		s("w%d := rt.GoBegin()", n)
		s("go func() {\n"+fmt.Sprintf(enter, fmt.Sprintf("gocl%d", n))+"\t%s()\n}()", target)
		s("rt.GoEnd(w%d)", n)
	case "fparam":
		d("func apply%d(f func()) {\n"+fmt.Sprintf(enter, fmt.Sprintf("apply%d", n))+"\tf()\n}", n)
		s("apply%d(%s)", n, target)
	case "deferArg":
		d("func apply%d(f func()) {\n"+fmt.Sprintf(enter, fmt.Sprintf("apply%d", n))+"\tf()\n}", n)
		s("defer apply%d(%s)", n, target)
	case "goArg":
		d("func apply%d(f func()) {\n"+fmt.Sprintf(enter, fmt.Sprintf("apply%d", n))+"\tf()\n}", n)
		s("w%d := rt.GoBegin()", n)
		s("go apply%d(%s)", n, target)
		s("rt.GoEnd(w%d)", n)
	case "ifaceWiden":
		d("type RW%d struct{}\nfunc (RW%d) M() {\n"+fmt.Sprintf(enter, fmt.Sprintf("RW%d.M", n))+"}\nfunc (RW%d) W() {\n"+
			fmt.Sprintf(enter, fmt.Sprintf("RW%d.W", n))+"\t%s()\n}", n, n, n, target)
		s("var r%d I = RW%d{}", n, n)
		s("r%d.(IW).W()", n)
	case "globalInit":
		d("var GF%d func()\nfunc init() { GF%d = %s }", n, n, target)
		s("GF%d()", n)
	case "retFunc":
		d("func mk%d() func() {\n"+fmt.Sprintf(enter, fmt.Sprintf("mk%d", n))+"\treturn %s\n}", n, target)
		s("mk%d()()", n)
	case "chanFunc":
		s("ch%d := make(chan func(), 1)", n)
		s("ch%d <- %s", n, target)
		s("(<-ch%d)()", n)
	case "ifaceTwo":
		// the same concrete type converted first to the narrow interface I, then to the wider IW; W is only ever called
		// through IW
		d("type TW%d struct{}\nfunc (TW%d) M() {\n"+fmt.Sprintf(enter, fmt.Sprintf("TW%d.M", n))+"}\nfunc (TW%d) W() {\n"+
			fmt.Sprintf(enter, fmt.Sprintf("TW%d.W", n))+"\t%s()\n}", n, n, n, target)
		s("var t%d I = TW%d{}", n, n)
		s("t%d.M()", n)
		s("var u%d IW = TW%d{}", n, n)
		s("u%d.W()", n)
	case "ifaceShared":
		// one concrete type shared by all hops, converted to a different single-method interface at every hop
		d("type IS%d interface{ M%d() }\nfunc (SH) M%d() {\n"+fmt.Sprintf(enter, fmt.Sprintf("SH.M%d", n))+"\t%s()\n}", n, n, n, target)
		s("var sh%d IS%d = SH{}", n, n)
		s("sh%d.M%d()", n, n)
	case "mapKeyIface":
		// the receiver only ever lives as the key of a map (set idiom)
		d("type W%d struct{}\nfunc (W%d) M() {\n"+fmt.Sprintf(enter, fmt.Sprintf("W%d.M", n))+"\t%s()\n}", n, n, target)
		s("mk%d := map[I]struct{}{}", n)
		s("mk%d[W%d{}] = struct{}{}", n, n)
		s("for k%d := range mk%d {\n\tk%d.M()\n}", n, n, n)
	case "mapKeyField":
		// the set of receivers is a map-typed field of a heap struct, filled and read through methods
		d("type W%d struct{ x *int }\nfunc (w *W%d) M() {\n"+fmt.Sprintf(enter, fmt.Sprintf("W%d.M", n))+"\t%s()\n}", n, n, target)
		d("type B%d struct{ subs map[I]struct{} }\nfunc (b *B%d) add(i I) {\n"+fmt.Sprintf(enter, fmt.Sprintf("B%d.add", n))+"\tb.subs[i] = struct{}{}\n}\nfunc (b *B%d) all() {\n"+
			fmt.Sprintf(enter, fmt.Sprintf("B%d.all", n))+"\tfor k := range b.subs {\n\t\tk.M()\n\t}\n}", n, n, n)
		s("b%d := &B%d{subs: map[I]struct{}{}}", n, n)
		s("b%d.add(&W%d{})", n, n)
		s("b%d.all()", n)
	case "namedArrRange":
		// callables held in a NAMED array type used by value (ssa.Index, not IndexAddr)
		d("type ST%d [2]func()", n)
		s("arr%d := ST%d{Other, %s}", n, n, target)
		s("for _, f%d := range arr%d {\n\tf%d()\n}", n, n, n)
	case "namedArrIndex":
		d("type ST%d [2]func()\nfunc build%d() ST%d {\n"+fmt.Sprintf(enter, fmt.Sprintf("build%d", n))+"\treturn ST%d{Other, %s}\n}", n, n, n, n, target)
		s("build%d()[1]()", n)
	case "namedArrIface":
		d("type W%d struct{}\nfunc (W%d) M() {\n"+fmt.Sprintf(enter, fmt.Sprintf("W%d.M", n))+"\t%s()\n}", n, n, target)
		d("type SI%d [1]I", n)
		s("ai%d := SI%d{W%d{}}", n, n, n)
		s("for _, v%d := range ai%d {\n\tv%d.M()\n}", n, n, n)
	case "namedSlice":
		d("type FS%d []func()", n)
		s("sl%d := FS%d{Other, %s}", n, n, target)
		s("sl%d[1]()", n)
	case "namedMap":
		d("type FM%d map[string]func()", n)
		s("nm%d := FM%d{\"k\": %s}", n, n, target)
		s("nm%d[\"k\"]()", n)
	case "mapKeyPtr":
		d("type H%d struct{ F func() }", n)
		s("mp%d := map[*H%d]bool{}", n, n)
		s("mp%d[&H%d{F: %s}] = true", n, n, target)
		s("for k%d := range mp%d {\n\tk%d.F()\n}", n, n, n)
	case "mapKeyChan":
		s("kc%d := make(chan func(), 1)", n)
		s("kc%d <- %s", n, target)
		s("mc%d := map[chan func()]int{kc%d: 1}", n, n)
		s("for k%d := range mc%d {\n\t(<-k%d)()\n}", n, n, n)
	default:
		panic("form " + form)
	}
	return f
}

// DispatchProgram builds main -x-> A -y-> B [-z-> C].
func DispatchProgram(forms []string) Subject {
	names := []string{"A", "B", "C", "D"}
	var decls, funcs []string
	// leaf target of the last hop
	bodyOf := make([][]string, len(forms)+1)
	for i, form := range forms {
		f := dispatch(form, i, names[i])
		decls = append(decls, f.decls...)
		bodyOf[i] = f.stmts
	}
	var sb strings.Builder
	sb.WriteString(shapeHeader)
	sb.WriteString("type I interface{ M() }\ntype IW interface {\n\tM()\n\tW()\n}\n")
	sb.WriteString("type SH struct{}\n")
	sb.WriteString("func Other() {\n" + fmt.Sprintf(enter, "Other") + "}\n")
	for _, d := range decls {
		sb.WriteString(d + "\n")
	}
	for i := range forms {
		// function names[i] is called by hop i and performs hop i+1 (or is the leaf)
		sb.WriteString("func " + names[i] + "() {\n" + fmt.Sprintf(enter, names[i]))
		if i+1 < len(forms) {
			sb.WriteString(indent(strings.Join(bodyOf[i+1], "\n"), 1) + "\n")
		}
		sb.WriteString("}\n")
		_ = funcs
	}
	sb.WriteString("func main() {\n" + fmt.Sprintf(enter, "main") + indent(strings.Join(bodyOf[0], "\n"), 1) + "\n}\n")
	atoms := []string{"family:dispatch"}
	for i, f := range forms {
		atoms = append(atoms, "form:"+f, fmt.Sprintf("hop%d:%s", i, f))
	}
	return Subject{Sig: "disp[" + strings.Join(forms, ">") + "]", Atoms: atoms, Src: sb.String()}
}

// DispatchFamily enumerates all form sequences of the given length (1..depth).
func DispatchFamily(depth int) []Subject {
	var out []Subject
	var rec func(cur []string)
	rec = func(cur []string) {
		if len(cur) > 0 {
			out = append(out, DispatchProgram(cur))
		}
		if len(cur) == depth {
			return
		}
		for _, f := range DispatchForms {
			rec(append(append([]string{}, cur...), f))
		}
	}
	rec(nil)
	return out
}

// DispatchCoreForms is the subset used for the third hop of the thorough tier (one representative per mechanism).
var DispatchCoreForms = []string{"static", "fvar", "closure", "mvalue", "iface", "generic", "deferred", "go", "goClosure", "fparam",
	"ifaceTwo", "mapKeyField", "namedArrRange"}

// DispatchFamilyCore3 = all sequences of <= 2 hops over all forms + all sequences of exactly 3 hops over the core forms.
func DispatchFamilyCore3() []Subject {
	out := DispatchFamily(2)
	for _, a := range DispatchCoreForms {
		for _, b := range DispatchCoreForms {
			for _, c := range DispatchCoreForms {
				out = append(out, DispatchProgram([]string{a, b, c}))
			}
		}
	}
	return out
}

package gen

import (
	"fmt"
	"strings"
)

// C11 subjects: two marked allocations, a chain of pointer operations, probes of every pointer-like variable.

// AliasOps: each operation defines a new *T variable $v from an existing *T variable $u (and sometimes $w).
var AliasOps = []struct{ ID, Text string }{
	{"copy", "$v := $u"},
	{"condAssign", "$v := $u\nif rt.Cond() {\n\t$v = $w\n}"},
	{"fieldRoundTrip", "h$i := &H2{}\nh$i.P = $u\n$v := h$i.P"},
	{"addrOfVar", "pp$i := &$u\n$v := *pp$i"},
	{"callID", "$v := idT($u)"},
	{"sliceRoundTrip", "s$i := []*T{$u}\nrt.Probe($k, s$i)\n$v := s$i[0]"},
	{"mapRoundTrip", "m$i := map[string]*T{\"k\": $u}\nrt.Probe($k, m$i)\n$v := m$i[\"k\"]"},
	{"chanRoundTrip", "c$i := make(chan *T, 1)\nc$i <- $u\n$v := <-c$i"},
	{"closureRet", "f$i := func() *T { return $u }\n$v := f$i()"},
	{"ifaceRoundTrip", "var i$i any = $u\n$v := i$i.(*T)"},
	{"structCopy", "h$i := H2{P: $u}\ng$i := h$i\n$v := g$i.P"},
	{"appendLast", "s$i := append([]*T(nil), $w, $u)\nrt.Probe($k, s$i)\n$v := s$i[len(s$i)-1]"},
	{"method", "$v := (&H2{P: $u}).Get()"},
	{"global", "GP = $u\n$v := GP"},
	{"fresh", "$v := rt.Mark($k, &T{})\n_ = $u"},
	{"nextField", "$u.N = $w\n$v := $u.N"},
	{"reslice", "s$i := []*T{$w, $u}\nt$i := s$i[1:]\nrt.Probe($k, s$i)\nrt.Probe($k+100, t$i)\n$v := t$i[0]"},
	{"outParam", "var $v *T\nsetT(&$v, $u)"},
	{"rangeLoop", "var $v *T\nfor _, e$i := range []*T{$u} {\n\t$v = e$i\n}"},
	{"switchType", "var $v *T\nswitch x$i := any($u).(type) {\ncase *T:\n\t$v = x$i\n}"},
	// value-receiver method reached through a POINTER stored in an interface (synthetic (*H3).GetV wrapper)
	{"valMethPtrIface", "var g$i GetterV = &H3{P: $u}\n$v := g$i.GetV()"},
	{"valMethValIface", "var g$i GetterV = H3{P: $u}\n$v := g$i.GetV()"},
	{"ptrMethIface", "var g$i GetterP = &H2{P: $u}\n$v := g$i.Get()"},
	{"embedPromoted", "e$i := &E3{H3{P: $u}}\n$v := e$i.GetV()"},
	{"embedPromotedIface", "var g$i GetterV = &E3{H3{P: $u}}\n$v := g$i.GetV()"},
	{"methodValue", "f$i := (&H2{P: $u}).Get\n$v := f$i()"},
	{"methodExpr", "f$i := (*H2).Get\n$v := f$i(&H2{P: $u})"},
	{"deferSet", "var $v *T\nfunc() {\n\tdefer setT(&$v, $u)\n}()"},
	// builtins over aggregate element types that CONTAIN pointers
	{"copyStructSlice", "src$i := []H2{{P: $u}}\ndst$i := make([]H2, 1)\ncopy(dst$i, src$i)\n$v := dst$i[0].P"},
	{"copyPtrSlice", "src$i := []*T{$u}\ndst$i := make([]*T, 1)\ncopy(dst$i, src$i)\nrt.Probe($k, dst$i)\n$v := dst$i[0]"},
	{"copyArrSlice", "src$i := [][2]*T{{$u, $w}}\ndst$i := make([][2]*T, 1)\ncopy(dst$i, src$i)\n$v := dst$i[0][0]"},
	{"copyNestedSlice", "src$i := []H4{{In: H2{P: $u}}}\ndst$i := make([]H4, 1)\ncopy(dst$i, src$i)\n$v := dst$i[0].In.P"},
	{"appendStructSlice", "dst$i := append([]H2(nil), []H2{{P: $u}}...)\n$v := dst$i[0].P"},
	{"arrayValueCopy", "arr$i := [1]H2{{P: $u}}\nbrr$i := arr$i\n$v := brr$i[0].P"},
	{"goChan", "c$i := make(chan *T)\ngo func() { c$i <- $u }()\n$v := <-c$i"},
}

const aliasDecls = `type T struct {
	F string
	N *T
}
type H2 struct{ P *T }
func (h *H2) Get() *T { return h.P }
type H4 struct{ In H2 }
type H3 struct{ P *T }
func (h H3) GetV() *T { return h.P }
type E3 struct{ H3 }
type GetterV interface{ GetV() *T }
type GetterP interface{ Get() *T }
func idT(p *T) *T { return p }
func setT(d **T, p *T) { *d = p }
var GP *T
`

// AliasFamily enumerates all operation sequences of length 1..depth.
func AliasFamily(depth int) []*AliasProg {
	var out []*AliasProg
	var rec func(cur []int)
	rec = func(cur []int) {
		if len(cur) > 0 {
			out = append(out, &AliasProg{Ops: append([]int(nil), cur...)})
		}
		if len(cur) == depth {
			return
		}
		for i := range AliasOps {
			rec(append(cur, i))
		}
	}
	rec(nil)
	return out
}

// AliasProg is one subject.
type AliasProg struct{ Ops []int }

func (p *AliasProg) Sig() string {
	var ids []string
	for _, o := range p.Ops {
		ids = append(ids, AliasOps[o].ID)
	}
	return "alias[" + strings.Join(ids, ">") + "]"
}

func (p *AliasProg) Atoms() []string {
	a := []string{"family:alias"}
	for _, o := range p.Ops {
		a = append(a, "op:"+AliasOps[o].ID)
	}
	return a
}

// Body renders the program body with a prefix on top-level names (main function = <prefix>main).
func (p *AliasProg) Body(prefix string) string {
	var sb strings.Builder
	sb.WriteString(strings.NewReplacer("T struct", prefix+"T struct", "*T", "*"+prefix+"T", "H2", prefix+"H2", "idT", prefix+"idT", "setT", prefix+"setT",
		"GP", prefix+"GP", "H4", prefix+"H4", "H3", prefix+"H3", "E3", prefix+"E3", "GetterV", prefix+"GetterV", "GetterP", prefix+"GetterP").Replace(aliasDecls))
	var body []string
	body = append(body, "a0 := rt.Mark(1, &T{})", "a1 := rt.Mark(2, &T{})")
	vars := []string{"a0", "a1"}
	for i, o := range p.Ops {
		u := vars[len(vars)-1]
		w := vars[len(vars)-2]
		v := fmt.Sprintf("v%d", i)
		t := AliasOps[o].Text
		t = strings.ReplaceAll(t, "$k+100", fmt.Sprint(150+i))
		t = strings.NewReplacer("$u", u, "$w", w, "$v", v, "$i", fmt.Sprint(i), "$k", fmt.Sprint(50+i)).Replace(t)
		body = append(body, t)
		vars = append(vars, v)
	}
	for i, v := range vars {
		body = append(body, fmt.Sprintf("rt.Probe(%d, %s)", 10+i, v))
	}
	text := strings.NewReplacer("&T{}", "&"+prefix+"T{}", "*T", "*"+prefix+"T", "H2", prefix+"H2", "idT(", prefix+"idT(", "setT(", prefix+"setT(",
		"GP", prefix+"GP", "H4", prefix+"H4", "H3", prefix+"H3", "E3", prefix+"E3", "GetterV", prefix+"GetterV", "GetterP", prefix+"GetterP").Replace(strings.Join(body, "\n"))
	sb.WriteString("func " + prefix + "main() {\n" + indent(text, 1) + "\n}\n")
	sb.WriteString("func " + prefix + "reset() {\n\t" + prefix + "GP = nil\n}\n")
	return sb.String()
}

// Src is the analysed program.
func (p *AliasProg) Src() string {
	return shapeHeader + p.Body("") + "\n"
}

package gen

import (
	"fmt"
	"strings"
)

// C16 statement grammar (DESIGN.md §13.7). A body is a list of statements; every `defer` gets its own id.
//
//	Stmt ::= defer | if{Body} | ifelse{Body}{Body} | for{Body} | switch{Body}{Body} | return | break | continue | goto | panic
//
// goto is rendered `if rt.Cond() { goto L }` (so that backward jumps terminate natively); the label L sits before one
// of the top-level statements (or at the end of the body).

type dstmt struct {
	kind string
	n    int // defer: number of consecutive defer statements (0 = 1)
	a, b []dstmt
}

// DeferFunc is one enumerated function body.
type DeferFunc struct {
	Sig  string
	Body string // statements, without func header
	NDef int
}

type denum struct {
	out      []DeferFunc
	maxNodes int
	maxDepth int
}

// bodies enumerates all statement lists with exactly n nodes at the given depth; inLoop permits break/continue.
func bodies(n, depth, maxDepth int, inLoop bool, memo map[string][][]dstmt) [][]dstmt {
	key := fmt.Sprintf("%d/%d/%v", n, depth, inLoop)
	if r, ok := memo[key]; ok {
		return r
	}
	var res [][]dstmt
	if n == 0 {
		res = [][]dstmt{nil}
		memo[key] = res
		return res
	}
	// first statement uses k nodes, rest uses n-k
	for k := 1; k <= n; k++ {
		firsts := stmts(k, depth, maxDepth, inLoop, memo)
		if len(firsts) == 0 {
			continue
		}
		rests := bodies(n-k, depth, maxDepth, inLoop, memo)
		for _, f := range firsts {
			for _, r := range rests {
				b := append([]dstmt{f}, r...)
				res = append(res, b)
			}
		}
	}
	memo[key] = res
	return res
}

// stmts enumerates single statements with exactly k nodes.
func stmts(k, depth, maxDepth int, inLoop bool, memo map[string][][]dstmt) []dstmt {
	var out []dstmt
	if k == 1 {
		out = append(out, dstmt{kind: "defer"}, dstmt{kind: "defer", n: 3}, dstmt{kind: "return"}, dstmt{kind: "panic"}, dstmt{kind: "goto"})
		if inLoop {
			out = append(out, dstmt{kind: "break"}, dstmt{kind: "continue"})
		}
	}
	if depth >= maxDepth || k < 1 {
		return out
	}
	// compound statements: 1 node for the statement itself
	inner := k - 1
	// if {A} (A may be empty only when inner == 0)
	for _, a := range bodies(inner, depth+1, maxDepth, inLoop, memo) {
		out = append(out, dstmt{kind: "if", a: a})
		out = append(out, dstmt{kind: "for", a: a})
	}
	// for bodies may use break/continue even if the enclosing context is not a loop
	if !inLoop {
		for _, a := range bodies(inner, depth+1, maxDepth, true, memo) {
			if usesLoopCtl(a) {
				out = append(out, dstmt{kind: "for", a: a})
			}
		}
	}
	// ifelse {A}{B}, switch {A}{B}: split inner
	if inner >= 1 {
		for i := 0; i <= inner; i++ {
			for _, a := range bodies(i, depth+1, maxDepth, inLoop, memo) {
				for _, b := range bodies(inner-i, depth+1, maxDepth, inLoop, memo) {
					out = append(out, dstmt{kind: "ifelse", a: a, b: b})
					if i >= 1 && inner-i >= 1 {
						out = append(out, dstmt{kind: "switch", a: a, b: b})
					}
				}
			}
		}
	}
	return out
}

func usesLoopCtl(b []dstmt) bool {
	for _, s := range b {
		switch s.kind {
		case "break", "continue":
			return true
		case "if", "ifelse", "switch":
			if usesLoopCtl(s.a) || usesLoopCtl(s.b) {
				return true
			}
		}
	}
	return false
}

func countKind(b []dstmt, kind string) int {
	n := 0
	for _, s := range b {
		if s.kind == kind {
			n++
		}
		n += countKind(s.a, kind) + countKind(s.b, kind)
	}
	return n
}

type drender struct {
	sb   strings.Builder
	sig  strings.Builder
	ndef int
}

func (r *drender) body(b []dstmt, ind int, labelAt int) {
	tab := strings.Repeat("\t", ind)
	for i, s := range b {
		if ind == 1 && i == labelAt {
			r.sb.WriteString("L:\n")
			r.sig.WriteString("L:")
		}
		switch s.kind {
		case "defer":
			k := s.n
			if k == 0 {
				k = 1
			}
			for j := 0; j < k; j++ {
				r.ndef++
				fmt.Fprintf(&r.sb, "%sdefer rt.D(%d)\n", tab, r.ndef)
			}
			if k == 1 {
				r.sig.WriteString("d;")
			} else {
				fmt.Fprintf(&r.sig, "d%d;", k)
			}
		case "return":
			fmt.Fprintf(&r.sb, "%sreturn\n", tab)
			r.sig.WriteString("r;")
		case "panic":
			fmt.Fprintf(&r.sb, "%spanic(\"p\")\n", tab)
			r.sig.WriteString("p;")
		case "goto":
			fmt.Fprintf(&r.sb, "%sif rt.Cond() {\n%s\tgoto L\n%s}\n", tab, tab, tab)
			r.sig.WriteString("g;")
		case "break":
			fmt.Fprintf(&r.sb, "%sbreak\n", tab)
			r.sig.WriteString("b;")
		case "continue":
			fmt.Fprintf(&r.sb, "%scontinue\n", tab)
			r.sig.WriteString("c;")
		case "if":
			fmt.Fprintf(&r.sb, "%sif rt.Cond() {\n", tab)
			r.sig.WriteString("if{")
			r.body(s.a, ind+1, -1)
			fmt.Fprintf(&r.sb, "%s}\n", tab)
			r.sig.WriteString("}")
		case "ifelse":
			fmt.Fprintf(&r.sb, "%sif rt.Cond() {\n", tab)
			r.sig.WriteString("if{")
			r.body(s.a, ind+1, -1)
			fmt.Fprintf(&r.sb, "%s} else {\n", tab)
			r.sig.WriteString("}else{")
			r.body(s.b, ind+1, -1)
			fmt.Fprintf(&r.sb, "%s}\n", tab)
			r.sig.WriteString("}")
		case "for":
			fmt.Fprintf(&r.sb, "%sfor rt.Cond() {\n", tab)
			r.sig.WriteString("for{")
			r.body(s.a, ind+1, -1)
			fmt.Fprintf(&r.sb, "%s}\n", tab)
			r.sig.WriteString("}")
		case "switch":
			fmt.Fprintf(&r.sb, "%sswitch {\n%scase rt.Cond():\n", tab, tab)
			r.sig.WriteString("sw{")
			r.body(s.a, ind+1, -1)
			fmt.Fprintf(&r.sb, "%sdefault:\n", tab)
			r.sig.WriteString("}{")
			r.body(s.b, ind+1, -1)
			fmt.Fprintf(&r.sb, "%s}\n", tab)
			r.sig.WriteString("}")
		}
	}
	if ind == 1 && labelAt == len(b) {
		r.sb.WriteString("L:\n")
		r.sig.WriteString("L:")
	}
}

// EnumerateDeferFuncs returns every function body with at most maxNodes statement nodes and nesting at most maxDepth
// that contains at least one defer. Bodies with goto get one variant per label position.
func EnumerateDeferFuncs(maxNodes, maxDepth int) []DeferFunc {
	memo := map[string][][]dstmt{}
	var out []DeferFunc
	seen := map[string]bool{}
	for n := 1; n <= maxNodes; n++ {
		for _, b := range bodies(n, 0, maxDepth, false, memo) {
			if countKind(b, "defer") == 0 {
				continue
			}
			labels := []int{-1}
			if countKind(b, "goto") > 0 {
				labels = nil
				for i := 0; i <= len(b); i++ {
					labels = append(labels, i)
				}
			}
			for _, la := range labels {
				r := &drender{}
				r.body(b, 1, la)
				sig := r.sig.String()
				if seen[sig] {
					continue
				}
				seen[sig] = true
				out = append(out, DeferFunc{Sig: sig, Body: r.sb.String(), NDef: r.ndef})
			}
		}
	}
	return out
}

// DeferPackage renders functions F0..Fn-1 as one package (name pkg) importing rt; with registry when native.
func DeferPackage(pkg string, funcs []DeferFunc, first int, native bool) string {
	var sb strings.Builder
	fmt.Fprintf(&sb, "package %s\n\nimport \"%s\"\n\nvar _ = rt.Cond\n\n", pkg, RTPath)
	for i, f := range funcs {
		fmt.Fprintf(&sb, "// %s\nfunc F%d() {\n%s}\n", f.Sig, first+i, f.Body)
	}
	if native {
		sb.WriteString("func noreset() {}\nvar Progs = []rt.Entry{\n")
		for i := range funcs {
			fmt.Fprintf(&sb, "\t{Name: \"%d\", Main: F%d, Reset: noreset},\n", first+i, first+i)
		}
		sb.WriteString("}\n")
	} else {
		sb.WriteString("func main() {}\n")
	}
	return sb.String()
}

// Package gen is the bounded-exhaustive subject-program generator of engine P (DESIGN.md §3, §13).
//
// A program is a source form, a typed chain of steps (each in a context) and a sink form. It is rendered to Go text
// in which every top-level identifier carries the program prefix, so thousands of programs can share one native
// package while the analyzer gets them one at a time. Site identity is carried by *function names* (source1, sink1,
// mk3, ...), never by line numbers.
package gen

import (
	"fmt"
	"sort"
	"strings"
)

// Kind is a carrier kind: a Go type plus the access path at which the token sits.
type Kind string

// goType returns the Go type of a kind ($P is the program prefix placeholder).
func goType(k Kind) string {
	switch k {
	case "S":
		return "string"
	case "B":
		return "[]byte"
	case "PS":
		return "*string"
	case "T_F":
		return "$PT"
	case "PT_F", "PT_P", "PT_I", "PT_N":
		return "*$PT"
	case "U_F":
		return "*$PU"
	case "SL":
		return "[]string"
	case "AR":
		return "[2]string"
	case "PAR":
		return "*[2]string"
	case "SLT":
		return "[]$PT"
	case "M_V", "M_K":
		return "map[string]string"
	case "I_S", "I_PT":
		return "any"
	case "G":
		return "$PGetter"
	case "F0":
		return "func() string"
	case "CH":
		return "chan string"
	case "E":
		return "error"
	case "BOX":
		return "$PBox[string]"
	case "PH":
		return "*$PH"
	}
	panic("unknown kind " + string(k))
}

// Decl is a top-level declaration shared by steps, emitted once per program.
type Decl struct {
	Key    string
	Text   string
	Reset  string // statement(s) to reset a global between native executions
	Shared bool   // not prefixed: emitted once per native package (builtin-name collisions)
}

var declTable = map[string]Decl{}

func decl(key, text string) string { declTable[key] = Decl{Key: key, Text: text}; return key }
func sdecl(key, text string) string {
	declTable[key] = Decl{Key: key, Text: text, Shared: true}
	return key
}
func gdecl(key, text, reset string) string {
	declTable[key] = Decl{Key: key, Text: text, Reset: reset}
	return key
}

var (
	dT      = decl("T", "type $PT struct {\n\tF, G string\n\tP *string\n\tI any\n\tN *$PT\n}")
	dU      = decl("U", "type $PU struct {\n\t$PT\n\tX string\n}")
	dMyStr  = decl("MyStr", "type $PMyStr string")
	dGetter = decl("Getter", "type $PGetter interface{ Get() string }\ntype $PImplV struct{ v string }\nfunc (i $PImplV) Get() string { return i.v }\ntype $PImplP struct{ v string }\nfunc (i *$PImplP) Get() string { return i.v }")
	dBox    = decl("Box", "type $PBox[X any] struct{ V X }")
	dErr    = decl("Err", "type $PMyErr struct{ m string }\nfunc (e *$PMyErr) Error() string { return e.m }")
	dH      = decl("H", "type $PH struct{ Fn func() string }")
	dK1     = decl("K1", "type $PK1 struct{}\nfunc (k $PK1) Echo(s string) string { return s }\nfunc (k *$PK1) EchoP(s string) string { return s }")
	dIdS    = decl("idS", "func $PidS(a string) string { return a }")
	dSet    = decl("set", "func $Pset(d *string, s string) { *d = s }")
	dTwo0   = decl("two0", "func $Ptwo0(s string) (string, string) { return s, \"c\" }")
	dTwo1   = decl("two1", "func $Ptwo1(s string) (string, string) { return \"c\", s }")
	dTwo1a  = decl("two1any", "func $Ptwo1any(s string) (int, any) { return 1, s }")
	dLast   = decl("last", "func $Plast(xs ...string) string { return xs[len(xs)-1] }")
	dEcho   = decl("echo", "func $Pecho(s string) string { return s }")
	dGid    = decl("gid", "func $Pgid[X any](a X) X { return a }")
	dRec    = decl("recid", "func $Precid(s string, n int) string {\n\tif n <= 0 {\n\t\treturn s\n\t}\n\treturn $Precid(s, n-1)\n}")
	dBoth   = decl("both", "func $Pboth(s string) (string, string) { return s, s }")
	dRecSw  = decl("recSwap", "func $PrecSwap(a, b string, n int) string {\n\tif n == 0 {\n\t\treturn a\n\t}\n\treturn $PrecSwap(b, a, n-1)\n}")
	dRecSh  = decl("recShift", "func $PrecShift(a, b, c string, n int) string {\n\tif n == 0 {\n\t\treturn a\n\t}\n\treturn $PrecShift(b, c, a, n-1)\n}")
	dMk     = decl("mk", "func $Pmk(s string) func() string {\n\treturn func() string { return s }\n}")
	dNamed  = decl("named", "func $Pnamedres(s string) (r string) {\n\tdefer func() { r = s }()\n\treturn \"a\"\n}")
	dGS     = gdecl("GS", "var $PGS string\nfunc $PrdGS() string { return $PGS }", "$PGS = \"\"")
	dGT     = gdecl("GT", "var $PGT $PT\nfunc $PrdGT() string { return $PGT.F }", "$PGT = $PT{}")
	dGA     = gdecl("GA", "var $PGA [2]string\nfunc $PrdGA0() string { return $PGA[0] }\nfunc $PrdGA1() string { return $PGA[1] }", "$PGA = [2]string{}")
	dGN     = gdecl("GN", "type $PNS struct {\n\tIn struct{ F string }\n\tTags [2]string\n}\nvar $PGN $PNS\nfunc $PrdGNin() string { return $PGN.In.F }\nfunc $PrdGNtag() string { return $PGN.Tags[0] }\nfunc $PrdGNw() $PNS { return $PGN }", "$PGN = $PNS{}")
	dGSO    = gdecl("GSO", "var $PGSO string\nfunc $PrdGSOInto(d *string) { *d = $PGSO }", "$PGSO = \"\"")
	dGSK    = gdecl("GSK", "var $PGSK string\nfunc $PfetchOut(d *string) { *d = $PGSK }\nfunc $PfetchRet() string { return $PGSK }\nfunc $PreportOut() {\n\tvar v string\n\t$PfetchOut(&v)\n\trt.Sink1(v)\n}\nfunc $PreportRet() {\n\tv := $PfetchRet()\n\trt.Sink1(v)\n}", "$PGSK = \"\"")
	dGM     = gdecl("GM", "var $PGM = map[string]string{}\nfunc $PrdGM() string { return $PGM[\"k\"] }", "$PGM = map[string]string{}")
	dGP     = gdecl("GP", "var $PGP = new(string)\nfunc $PrdGP() string { return *$PGP }", "$PGP = new(string)")
	dGSL    = gdecl("GSL", "var $PGSL = make([]string, 2)\nfunc $PrdGSL() string { return $PGSL[0] }", "$PGSL = make([]string, 2)")
	// user functions whose names collide with builtins; bodies whose flow differs from the builtin's
	dUMin   = sdecl("umin", "func min(a *string, b string) { *a = b }")
	dULen   = sdecl("ulen", "func len(a string) string { return a }")
	dUApp   = sdecl("uappend", "func append(a *string, b string) { *a = b }")
	dUClose = sdecl("uclose", "func close(a *string, b string) { *a = b }")
	dUDel   = sdecl("udelete", "func delete(a *string, b string) { *a = b }")
	dUErr   = decl("uerror", "type $PErrLike interface{ Error() string }\ntype $PEL struct{ m string }\nfunc (e $PEL) Error() string { return e.m }")
)

// Step maps one carrier kind to another.
type Step struct {
	ID    string
	In    Kind
	Out   Kind
	Decls []string
	Init  string // allocation of a clean $y (assignment form; `var $y T` is emitted by the renderer)
	Move  string // statements moving the token from $x to $y
	Drops bool   // the token is (expected to be) dropped: negative program
	Flat  bool   // only the straight context (step has its own control structure or collides with helper names)
	Tags  []string
}

func st(id string, in, out Kind, move string, decls ...string) Step {
	return Step{ID: id, In: in, Out: out, Move: move, Decls: decls}
}
func sti(id string, in, out Kind, init, move string, decls ...string) Step {
	return Step{ID: id, In: in, Out: out, Init: init, Move: move, Decls: decls}
}
func (s Step) drop() Step           { s.Drops = true; return s }
func (s Step) flat() Step           { s.Flat = true; return s }
func (s Step) tag(t ...string) Step { s.Tags = append(s.Tags, t...); return s }

// Steps is the alphabet, simplest first.
var Steps = []Step{
	// value
	st("v.copy", "S", "S", "$y = $x"),
	st("v.catL", "S", "S", "$y = \"a\" + $x"),
	st("v.catR", "S", "S", "$y = $x + \"a\""),
	st("v.catSelf", "S", "S", "$y = $x + $x"),
	st("v.bytes", "S", "B", "$y = []byte($x)"),
	st("v.str", "B", "S", "$y = string($x)"),
	st("v.named", "S", "S", "$y = string($PMyStr($x))", dMyStr),
	st("v.substr", "S", "S", "$y = $x[0:]"),
	st("v.max2", "S", "S", "$y = max(\"A\", $x)").tag("builtin"),
	st("v.min2", "S", "S", "$y = min(\"z\", $x)").tag("builtin"),
	st("v.max3", "S", "S", "$y = max(\"A\", \"B\", $x)").tag("builtin"),
	st("v.min3", "S", "S", "$y = min(\"z\", \"y\", $x)").tag("builtin"),
	st("v.append1", "S", "SL", "$y = append($y, $x)"),
	st("v.appendN", "SL", "SL", "$y = append($y, $x...)"),
	sti("v.copyB", "B", "B", "$y = make([]byte, 16)", "copy($y, $x)"),
	st("v.reslice", "SL", "SL", "$y = $x[0:len($x)]"),
	st("v.overwrite", "S", "S", "$y = $x\n$y = \"clean\"").drop(),
	st("v.catMk", "S", "S", "$y = $x + rt.Mk1()").tag("mk"),
	st("v.mkOnly", "S", "S", "$y = $PidS(rt.Mk2())\n_ = $x", dIdS).drop().tag("mk"),
	sti("v.mkField", "S", "PT_F", "$y = &$PT{}", "$y.F = $x\n$y.G = rt.Mk3()", dT).tag("mk"),
	// struct
	sti("s.fst", "S", "PT_F", "$y = &$PT{}", "$y.F = $x", dT),
	st("s.fld", "PT_F", "S", "$y = $x.F", dT),
	st("s.fldOther", "PT_F", "S", "$y = $x.G", dT).drop(),
	st("s.deref", "PT_F", "T_F", "$y = *$x", dT),
	st("s.vfld", "T_F", "S", "$y = $x.F", dT),
	st("s.lit", "S", "T_F", "$y = $PT{F: $x}", dT),
	sti("s.emb", "S", "U_F", "$y = &$PU{}", "$y.F = $x", dT, dU),
	st("s.embLd", "U_F", "S", "$y = $x.$PT.F", dT, dU),
	sti("s.nest", "PT_F", "PT_N", "$y = &$PT{}", "$y.N = $x", dT),
	st("s.nestLd", "PT_N", "S", "$y = $x.N.F", dT).tag("nilderef"),
	// pointer
	sti("p.st", "S", "PS", "$y = new(string)", "*$y = $x"),
	st("p.ld", "PS", "S", "$y = *$x").tag("nilderef"),
	sti("p.alias", "S", "PS", "$y = new(string)", "q$i := $y\n*q$i = $x"),
	sti("p.viaField", "S", "PT_P", "$y = &$PT{P: new(string)}", "*$y.P = $x", dT),
	st("p.viaFieldLd", "PT_P", "S", "$y = *$x.P", dT).tag("nilderef"),
	sti("p.pp", "PS", "PS", "$y = new(string)", "pp$i := &$y\n**pp$i = *$x").tag("nilderef"),
	st("p.addrLocal", "S", "PS", "tmp$i := $x\n$y = &tmp$i"),
	// slice / array
	sti("a.ist", "S", "SL", "$y = make([]string, 2)", "$y[0] = $x"),
	st("a.ild", "SL", "S", "$y = $x[0]").tag("index"),
	st("a.ildOther", "SL", "S", "$y = $x[1]").tag("index"),
	st("a.range", "SL", "S", "for _, e$i := range $x {\n$y = e$i\n}"),
	st("a.arr", "S", "AR", "$y[0] = $x"),
	st("a.arrLd", "AR", "S", "$y = $x[0]"),
	st("a.arrLdOther", "AR", "S", "$y = $x[1]"),
	st("a.parr", "AR", "PAR", "tmp$i := $x\n$y = &tmp$i"),
	st("a.parrLd", "PAR", "S", "$y = $x[0]").tag("nilderef"),
	st("a.slt", "T_F", "SLT", "$y = append($y, $x)", dT),
	st("a.sltLd", "SLT", "S", "$y = $x[0].F", dT).tag("index"),
	// map
	sti("m.vst", "S", "M_V", "$y = map[string]string{}", "$y[\"k\"] = $x"),
	st("m.vld", "M_V", "S", "$y = $x[\"k\"]"),
	st("m.vldOther", "M_V", "S", "$y = $x[\"j\"]"),
	sti("m.kst", "S", "M_K", "$y = map[string]string{}", "$y[$x] = \"v\""),
	st("m.krange", "M_K", "S", "for k$i := range $x {\n$y = k$i\n}"),
	st("m.vrange", "M_V", "S", "for _, v$i := range $x {\n$y = v$i\n}"),
	st("m.vcommaok", "M_V", "S", "v$i, ok$i := $x[\"k\"]\n_ = ok$i\n$y = v$i"),
	// data that is the SECOND result of a call, read back through a multiplexed tuple (comma-ok lookup, range, select)
	st("m.tupCommaok", "S", "S", "_, t$i := $Ptwo1($x)\nm$i := map[string]string{\"k\": t$i}\nv$i, ok$i := m$i[\"k\"]\n_ = ok$i\n$y = v$i", dTwo1),
	st("a.tupRange", "S", "S", "_, t$i := $Ptwo1($x)\nfor _, e$i := range []string{t$i} {\n$y = e$i\n}", dTwo1),
	st("m.tupRange", "S", "S", "_, t$i := $Ptwo1($x)\nfor _, e$i := range map[string]string{\"k\": t$i} {\n$y = e$i\n}", dTwo1),
	st("h.tupSelRecv", "S", "S", "_, t$i := $Ptwo1($x)\nc$i := make(chan string, 1)\nc$i <- t$i\nselect {\ncase r$i, ok$i := <-c$i:\n\t_ = ok$i\n\t$y = r$i\ndefault:\n}", dTwo1),
	st("m.del", "M_V", "M_V", "delete($x, \"k\")\n$y = $x").drop(),
	// interface
	st("i.box", "S", "I_S", "$y = $x"),
	st("i.unbox", "I_S", "S", "$y = $x.(string)").tag("assert"),
	st("i.commaok", "I_S", "S", "v$i, ok$i := $x.(string)\n_ = ok$i\n$y = v$i"),
	st("i.tswitch", "I_S", "S", "switch v$i := $x.(type) {\ncase string:\n$y = v$i\n}"),
	st("i.boxPtr", "PT_F", "I_PT", "$y = $x", dT),
	st("i.unboxPtr", "I_PT", "PT_F", "$y = $x.(*$PT)", dT).tag("assert"),
	st("i.getterV", "S", "G", "$y = $PImplV{v: $x}", dGetter),
	st("i.getterP", "S", "G", "$y = &$PImplP{v: $x}", dGetter),
	st("i.get", "G", "S", "$y = $x.Get()", dGetter).tag("nilderef"),
	sti("i.viaAny", "S", "PT_I", "$y = &$PT{}", "$y.I = $x", dT),
	st("i.viaAnyLd", "PT_I", "S", "$y = $x.I.(string)", dT).tag("assert"),
	// call
	st("c.id", "S", "S", "$y = $PidS($x)", dIdS),
	st("c.out", "S", "S", "$Pset(&$y, $x)", dSet),
	st("c.tup0", "S", "S", "$y, _ = $Ptwo0($x)", dTwo0),
	st("c.tup1", "S", "S", "_, $y = $Ptwo1($x)", dTwo1),
	st("c.tup2of3", "S", "S", "_, _, $y = $Pthree($x)", "three"),
	st("c.tup3of4", "S", "S", "_, _, _, $y = $Pfour($x)", "four"),
	st("c.tupWrap", "S", "S", "_, _, $y = $Pwrap3($x)", "three", "wrap3"),
	st("c.tup1ok", "S", "S", "_, a$i := $Ptwo1any($x)\nv$i, ok$i := a$i.(string)\n_ = ok$i\n$y = v$i", dTwo1a),
	st("c.tupBoth", "S", "S", "a$i, b$i := $Pboth($x)\n$y = a$i + b$i", dBoth),
	st("c.tupBothSecond", "S", "S", "a$i, b$i := $Ptwo1($x)\n$y = a$i + b$i", dTwo1),
	st("c.tupBothVariadic", "S", "S", "a$i, b$i := $Ptwo1($x)\n$y = $Plast(a$i, b$i)", dTwo1, dLast),
	st("c.recSwap", "S", "S", "$y = $PrecSwap(\"c\", $x, 1)", dRecSw),
	st("c.recSwap2", "S", "S", "$y = $PrecSwap($x, \"c\", 2)", dRecSw),
	st("c.recShift", "S", "S", "$y = $PrecShift(\"c\", \"d\", $x, 2)", dRecSh),
	st("c.variadic", "S", "S", "$y = $Plast(\"a\", $x)", dLast),
	st("c.methV", "S", "S", "$y = $PK1{}.Echo($x)", dK1),
	st("c.methP", "S", "S", "$y = (&$PK1{}).EchoP($x)", dK1),
	st("c.mval", "S", "S", "f$i := $PK1{}.Echo\n$y = f$i($x)", dK1),
	st("c.mexpr", "S", "S", "f$i := $PK1.Echo\n$y = f$i($PK1{}, $x)", dK1),
	st("c.fval", "S", "S", "var f$i func(string) string = $Pecho\n$y = f$i($x)", dEcho),
	st("c.generic", "S", "S", "$y = $Pgid[string]($x)", dGid),
	st("c.genericPtr", "PT_F", "PT_F", "$y = $Pgid[*$PT]($x)", dGid, dT),
	st("c.rec", "S", "S", "$y = $Precid($x, 2)", dRec),
	st("c.umin", "S", "S", "min(&$y, $x)", dUMin).flat().tag("collide"),
	st("c.ulen", "S", "S", "$y = len($x)", dULen).flat().tag("collide"),
	st("c.uappend", "S", "S", "append(&$y, $x)", dUApp).flat().tag("collide"),
	st("c.uclose", "S", "S", "close(&$y, $x)", dUClose).flat().tag("collide"),
	st("c.udelete", "S", "S", "delete(&$y, $x)", dUDel).flat().tag("collide"),
	st("c.uerror", "S", "S", "var el$i $PErrLike = $PEL{m: $x}\n$y = el$i.Error()", dUErr).tag("collide"),
	// closure
	st("k.cap", "S", "F0", "$y = func() string { return $x }"),
	st("k.call", "F0", "S", "$y = $x()").tag("nilderef"),
	sti("k.capLate", "S", "F0", "v$i := \"a\"\n$y = func() string { return v$i }", "v$i = $x").flat(),
	st("k.mut", "S", "S", "func() { $y = $x }()"),
	st("k.ret", "S", "F0", "$y = $Pmk($x)", dMk),
	sti("k.field", "F0", "PH", "$y = &$PH{}", "$y.Fn = $x", dH),
	st("k.fieldCall", "PH", "S", "$y = $x.Fn()", dH).tag("nilderef"),
	// global
	st("g.exchange", "S", "S", "_ = $Pexchange($x)\n$y = $Pexchange(\"c\")", "GX"),
	st("k.stateful", "S", "S", "acc$i := \"\"\nf$i := func(s string) string {\n\tr := acc$i\n\tacc$i = s\n\treturn r\n}\n_ = f$i($x)\n$y = f$i(\"c\")").flat(),
	st("g.sc", "S", "S", "$PGS = $x\n$y = $PGS", dGS),
	st("g.scOutH", "S", "S", "$PGSO = $x\n$PrdGSOInto(&$y)", dGSO),
	st("g.scH", "S", "S", "$PGS = $x\n$y = $PrdGS()", dGS),
	st("g.fld", "S", "S", "$PGT.F = $x\n$y = $PGT.F", dT, dGT),
	st("g.fldH", "S", "S", "$PGT.F = $x\n$y = $PrdGT()", dT, dGT),
	st("g.wholeNestH", "S", "S", "var n$i $PNS\nn$i.In.F = $x\n$PGN = n$i\n$y = $PrdGNin()", dGN),
	st("g.wholeTagH", "S", "S", "var n$i $PNS\nn$i.Tags[0] = $x\n$PGN = n$i\n$y = $PrdGNtag()", dGN),
	st("g.wholeWholeH", "S", "S", "var n$i $PNS\nn$i.In.F = $x\n$PGN = n$i\nw$i := $PrdGNw()\n$y = w$i.In.F", dGN),
	st("g.arr", "S", "S", "$PGA[0] = $x\n$y = $PGA[0]", dGA),
	st("g.arrH", "S", "S", "$PGA[0] = $x\n$y = $PrdGA0()", dGA),
	st("g.arrHOther", "S", "S", "$PGA[0] = $x\n$y = $PrdGA1()", dGA).drop(),
	st("g.map", "S", "S", "$PGM[\"k\"] = $x\n$y = $PGM[\"k\"]", dGM),
	st("g.mapH", "S", "S", "$PGM[\"k\"] = $x\n$y = $PrdGM()", dGM),
	st("g.ptr", "S", "S", "*$PGP = $x\n$y = *$PGP", dGP),
	st("g.ptrH", "S", "S", "*$PGP = $x\n$y = $PrdGP()", dGP),
	st("g.sl", "S", "S", "$PGSL[0] = $x\n$y = $PGSL[0]", dGSL),
	st("g.slH", "S", "S", "$PGSL[0] = $x\n$y = $PrdGSL()", dGSL),
	// defer
	st("d.named", "S", "S", "$y = $Pnamedres($x)", dNamed),
	// channel (single goroutine)
	sti("h.send", "S", "CH", "$y = make(chan string, 1)", "$y <- $x").flat(),
	st("h.recv", "CH", "S", "$y = <-$x").flat(),
	sti("h.selSend", "S", "CH", "$y = make(chan string, 1)", "select {\ncase $y <- $x:\ndefault:\n}"),
	st("h.selRecv", "CH", "S", "select {\ncase $y = <-$x:\ndefault:\n}"),
	// error
	st("e.mk", "S", "E", "$y = &$PMyErr{m: $x}", dErr),
	st("e.msg", "E", "S", "$y = $x.Error()", dErr).tag("nilderef"),
	// generic box
	st("b.box", "S", "BOX", "$y = $PBox[string]{V: $x}", dBox),
	st("b.unbox", "BOX", "S", "$y = $x.V", dBox),
}

// Context wraps the move part of a step.
type Context string

// Contexts in deviation order; "straight" is the default (no deviation).
var Contexts = []Context{"straight", "then", "else", "loop", "switch", "helper", "helperOut", "iife", "earlyRet", "deferred", "loopDelayed", "doWhile", "doWhileDelayed"}

// SourceForm produces the first carrier.
type SourceForm struct {
	ID    string
	Out   Kind
	Decls []string
	Text  string // declares $y
}

// SinkForm consumes the last carrier.
type SinkForm struct {
	ID    string
	In    []Kind // nil = any kind
	Decls []string
	Text  string
	Early string // if non-empty: emitted right after the Init of the last step (before the token arrives)
}

// Sources: source1 is a function returning string; see Stub* for the definitions.
var Sources = []SourceForm{
	{ID: "src.str", Out: "S", Text: "$y := rt.Source1()"},
	{ID: "src.T", Out: "PT_F", Decls: []string{dT, "sourceT"}, Text: "$y := $PsourceT1()"},
	{ID: "src.tup", Out: "S", Text: "_, $y := rt.Source2()"},
	{ID: "src.meth", Out: "S", Decls: []string{"srcM"}, Text: "$y := $PSrc{}.Source3()"},
}

func init() {
	gdecl("GX", "var $PGX string\nfunc $Pstore(x string) { $PGX = x }\nfunc $Pload() string { return $PGX }\nfunc $Pexchange(x string) string {\n\tr := $Pload()\n\t$Pstore(x)\n\treturn r\n}", "$PGX = \"\"")
	decl("three", "func $Pthree(s string) (string, string, string) { return \"a\", \"b\", s }")
	decl("four", "func $Pfour(s string) (a, b, c, d string) {\n\td = s\n\treturn\n}")
	decl("wrap3", "func $Pwrap3(s string) (string, string, string) { return $Pthree(s) }")
	decl("sourceT", "func $PsourceT1() *$PT { return &$PT{F: rt.Source1()} }")
	decl("srcM", "type $PSrc struct{}\nfunc (s $PSrc) Source3() string { return rt.Source3() }")
	decl("snkM", "type $PSnk struct{}\nfunc (s *$PSnk) Sink4(x any) { rt.Sink4(x) }")
}

// Sinks.
var Sinks = []SinkForm{
	{ID: "snk.val", Text: "rt.Sink1($x)"},
	{ID: "snk.addr", Text: "rt.Sink1(&$x)"},
	{ID: "snk.variadic", In: []Kind{"S"}, Text: "rt.Sinkv2(\"a\", $x)"},
	{ID: "snk.inSlice", Text: "rt.Sink1([]any{$x})"},
	{ID: "snk.inMap", Text: "rt.Sink1(map[string]any{\"k\": $x})"},
	// the sink sits in a parameterless function that fetches the data from a global through a helper (returned / copied
	// into an out-parameter): no data flows into that function through its call
	{ID: "snk.viaGlobalRet", In: []Kind{"S"}, Decls: []string{dGSK}, Text: "$PGSK = $x\n$PreportRet()"},
	{ID: "snk.viaGlobalOut", In: []Kind{"S"}, Decls: []string{dGSK}, Text: "$PGSK = $x\n$PreportOut()"},
	{ID: "snk.deferred", Text: "defer rt.Sink1($x)"},
	{ID: "snk.deferClosure", Text: "defer func() { rt.Sink1($x) }()"},
	{ID: "snk.deferEarlyClosure", Early: "defer func() { rt.Sink1($y) }()"},
	{ID: "snk.deferEarlyPtr", In: []Kind{"PT_F", "PS", "PT_P", "M_V", "SL", "U_F", "PT_N", "PT_I", "PH"}, Early: "defer rt.Sink1($y)"},
}

// Item is one step placed in a context.
type Item struct {
	Step *Step
	Ctx  Context
}

// Prog is a subject program of the taint family.
type Prog struct {
	Src   *SourceForm
	Items []Item
	Snk   *SinkForm
	Guard *Guard // C02: replaces the sink form (Snk is Sinks[0] then)
}

func (p *Prog) lastID() string {
	if p.Guard != nil {
		return p.Guard.ID
	}
	return p.Snk.ID
}

// Sig is the canonical signature of the program.
func (p *Prog) Sig() string {
	parts := []string{p.Src.ID}
	for _, it := range p.Items {
		if it.Ctx == "straight" {
			parts = append(parts, it.Step.ID)
		} else {
			parts = append(parts, it.Step.ID+"@"+string(it.Ctx))
		}
	}
	parts = append(parts, p.lastID())
	return strings.Join(parts, " | ")
}

// StepIDs lists "step@ctx" elements (ctx omitted for straight) plus source and sink ids: the atoms that known-finding
// cores are matched against.
func (p *Prog) Atoms() []string {
	a := []string{p.Src.ID}
	for _, it := range p.Items {
		a = append(a, it.Step.ID)
		if it.Ctx != "straight" {
			a = append(a, it.Step.ID+"@"+string(it.Ctx))
		}
	}
	return append(a, p.lastID())
}

type renderer struct {
	sb     strings.Builder
	decls  map[string]bool
	order  []string
	extra  []string // helper functions
	prefix string
}

func (r *renderer) need(keys ...string) {
	for _, k := range keys {
		if !r.decls[k] {
			r.decls[k] = true
			r.order = append(r.order, k)
		}
	}
}

func subst(t string, x, y string, i int) string {
	t = strings.ReplaceAll(t, "$x", x)
	t = strings.ReplaceAll(t, "$y", y)
	t = strings.ReplaceAll(t, "$i", fmt.Sprint(i))
	return t
}

func indent(t string, n int) string {
	if t == "" {
		return ""
	}
	lines := strings.Split(t, "\n")
	for i := range lines {
		lines[i] = strings.Repeat("\t", n) + lines[i]
	}
	return strings.Join(lines, "\n")
}

func ctxApplies(s *Step, c Context) bool {
	if c == "straight" {
		return true
	}
	if s.Flat {
		return false
	}
	return true
}

// renderItem returns the statements for main and appends helper functions to r.extra.
// early is emitted between init and move (used by early sinks), already substituted.
func (r *renderer) renderItem(it Item, i int, x, y string, early string) string {
	s := it.Step
	r.need(s.Decls...)
	init := subst(s.Init, x, y, i)
	move := subst(s.Move, x, y, i)
	tin, tout := goType(s.In), goType(s.Out)
	var out []string
	decl := fmt.Sprintf("var %s %s", y, tout)
	add := func(ss ...string) {
		for _, s := range ss {
			if s != "" {
				out = append(out, s)
			}
		}
	}
	switch it.Ctx {
	case "straight":
		add(decl, init, early, move)
	case "then":
		add(decl, init, early, "if rt.Cond() {", indent(move, 1), "}")
	case "else":
		add(decl, init, early, "if rt.Cond() {", "} else {", indent(move, 1), "}")
	case "loop":
		add(decl, init, early, "for rt.Cond() {", indent(move, 1), "}")
	case "switch":
		add(decl, init, early, "switch {", "case rt.Cond():", indent(move, 1), "}")
	case "iife":
		add(decl, init, early, "func() {", indent(move, 1), "}()")
	case "loopDelayed":
		z := fmt.Sprintf("z%d", i)
		add(decl, init, early, fmt.Sprintf("var %s %s", z, tout), subst(s.Init, x, z, i+100),
			"for rt.Cond() {", indent(y+" = "+z, 1), indent(subst(s.Move, x, z, i+100), 1), "}")
	case "doWhile":
		// single-block loop body that is its own successor
		add(decl, init, early, "for {", indent(move, 1), "\tif !rt.Cond() {", "\t\tbreak", "\t}", "}")
	case "doWhileDelayed":
		z := fmt.Sprintf("z%d", i)
		add(decl, init, early, fmt.Sprintf("var %s %s", z, tout), subst(s.Init, x, z, i+100),
			"for {", indent(y+" = "+z, 1), indent(subst(s.Move, x, z, i+100), 1), "\tif !rt.Cond() {", "\t\tbreak", "\t}", "}")
	case "helper", "earlyRet":
		h := fmt.Sprintf("$Ph%d", i)
		body := []string{fmt.Sprintf("func %s(%s %s) %s {", h, "x", tin, tout), "\tvar y " + tout}
		if s.Init != "" {
			body = append(body, indent(subst(s.Init, "x", "y", i), 1))
		}
		if it.Ctx == "earlyRet" {
			body = append(body, "\tif rt.Cond() {", "\t\treturn y", "\t}")
		}
		body = append(body, indent(subst(s.Move, "x", "y", i), 1), "\treturn y", "}")
		r.extra = append(r.extra, strings.Join(body, "\n"))
		if early != "" {
			// early sinks need the carrier before the move: not expressible with a value-returning helper
			panic("early sink with helper context")
		}
		add(fmt.Sprintf("%s := %s(%s)", y, h, x))
	case "helperOut":
		h := fmt.Sprintf("$Ph%d", i)
		body := []string{fmt.Sprintf("func %s(x %s, yp *%s) {", h, tin, tout), "\ty := *yp"}
		body = append(body, indent(subst(s.Move, "x", "y", i), 1), "\t*yp = y", "}")
		r.extra = append(r.extra, strings.Join(body, "\n"))
		add(decl, init, early, fmt.Sprintf("%s(%s, &%s)", h, x, y))
	case "deferred":
		h := fmt.Sprintf("$Ph%d", i)
		body := []string{fmt.Sprintf("func %s(x %s) (y %s) {", h, tin, tout)}
		if s.Init != "" {
			body = append(body, indent(subst(s.Init, "x", "y", i), 1))
		}
		body = append(body, "\tdefer func() {", indent(subst(s.Move, "x", "y", i), 2), "\t}()", "\treturn y", "}")
		r.extra = append(r.extra, strings.Join(body, "\n"))
		if early != "" {
			panic("early sink with deferred context")
		}
		add(fmt.Sprintf("%s := %s(%s)", y, h, x))
	default:
		panic("ctx " + it.Ctx)
	}
	return strings.Join(out, "\n")
}

// Valid reports whether the combination can be rendered.
func (p *Prog) Valid() bool {
	k := p.Src.Out
	for _, it := range p.Items {
		if it.Step.In != k || !ctxApplies(it.Step, it.Ctx) {
			return false
		}
		k = it.Step.Out
	}
	if p.Guard != nil {
		return k == "S"
	}
	if p.Snk.In != nil {
		ok := false
		for _, x := range p.Snk.In {
			ok = ok || x == k
		}
		if !ok {
			return false
		}
	}
	if p.Snk.Early != "" {
		if len(p.Items) == 0 {
			return false
		}
		last := p.Items[len(p.Items)-1]
		switch last.Ctx {
		case "helper", "earlyRet", "deferred":
			return false
		}
	}
	return true
}

// Render renders the program body (declarations, helpers, $Pmain, $Preset) with the given prefix, without a package
// clause and without stubs. Shared (unprefixed) declarations are returned separately by key.
func (p *Prog) Render(prefix string) (string, []string) {
	r := &renderer{decls: map[string]bool{}, prefix: prefix}
	var body []string
	r.need(p.Src.Decls...)
	body = append(body, subst(p.Src.Text, "", "x0", 0))
	x := "x0"
	for i, it := range p.Items {
		y := fmt.Sprintf("x%d", i+1)
		early := ""
		if i == len(p.Items)-1 && p.Snk.Early != "" {
			early = subst(p.Snk.Early, x, y, i)
		}
		body = append(body, r.renderItem(it, i+1, x, y, early))
		x = y
	}
	r.need(p.Snk.Decls...)
	if p.Guard != nil {
		if p.Guard.ID == "gd.helperValid" {
			r.need("validH")
		}
		if strings.Contains(p.Guard.Text, "$PT") {
			r.need(dT)
		}
		body = append(body, subst(p.Guard.Text, x, "", 0))
	} else if p.Snk.Early == "" {
		body = append(body, subst(p.Snk.Text, x, "", 0))
	} else {
		body = append(body, "_ = "+x)
	}
	var sb strings.Builder
	var resets []string
	var shared []string
	for _, k := range r.order {
		d, ok := declTable[k]
		if !ok {
			panic("no decl " + k)
		}
		if d.Shared {
			shared = append(shared, k)
			continue
		}
		sb.WriteString(d.Text)
		sb.WriteString("\n")
		if d.Reset != "" {
			resets = append(resets, d.Reset)
		}
	}
	for _, e := range r.extra {
		sb.WriteString(e)
		sb.WriteString("\n")
	}
	sb.WriteString("func $Pmain() {\n")
	sb.WriteString(indent(strings.Join(body, "\n"), 1))
	sb.WriteString("\n}\n")
	sb.WriteString("func $Preset() {\n")
	sort.Strings(resets)
	sb.WriteString(indent(strings.Join(resets, "\n"), 1))
	sb.WriteString("\n}\n")
	sort.Strings(shared)
	return strings.ReplaceAll(sb.String(), "$P", prefix), shared
}

// SharedText returns the text of shared declarations.
func SharedText(keys []string) string {
	var sb strings.Builder
	for _, k := range keys {
		sb.WriteString(declTable[k].Text)
		sb.WriteString("\n")
	}
	return sb.String()
}

// Group is the native package group of the program: programs that declare functions named like builtins cannot
// share a package with programs that use the builtin.
func (p *Prog) Group() string {
	_, sh := p.Render("P_")
	return strings.Join(sh, "+")
}

// StepByID finds a step.
func StepByID(id string) *Step {
	for i := range Steps {
		if Steps[i].ID == id {
			return &Steps[i]
		}
	}
	return nil
}

package gen

// Guard is a sanitizer/validator shape for C02 (DESIGN.md §13.4). $x is the string variable holding the token.
// A guard plays the role of the sink form: it contains the sink call(s).
type Guard struct {
	ID   string
	Text string
}

// Guards in simplest-first order. Validate1 answers with the next valuation bit and validates the tokens of its
// argument when true; ValidateE1 returns nil when valid; Sanitize1 returns clean data.
var Guards = []Guard{
	{"gd.ifValid", "if rt.Validate1($x) {\n\trt.Sink1($x)\n}"},
	{"gd.notValidReturn", "if !rt.Validate1($x) {\n\treturn\n}\nrt.Sink1($x)"},
	{"gd.noGuard", "if rt.Validate1($x) {\n}\nrt.Sink1($x)"},
	{"gd.bothArms", "if rt.Validate1($x) {\n\trt.Sink1($x)\n} else {\n\trt.Sink1($x)\n}"},
	{"gd.diamondJoin", "if rt.Validate1($x) {\n\trt.Sink3(\"c\")\n} else {\n\trt.Sink3(\"d\")\n}\nrt.Sink1($x)"},
	{"gd.errDiamondJoin", "if e := rt.ValidateE1($x); e == nil {\n\trt.Sink3(\"c\")\n} else {\n\trt.Sink3(\"d\")\n}\nrt.Sink1($x)"},
	{"gd.bypassElseIf", "if rt.Cond() {\n\tif !rt.Validate1($x) {\n\t\treturn\n\t}\n} else if rt.Cond() {\n\trt.Sink3(\"c\")\n}\nrt.Sink1($x)"},
	{"gd.diamondLong", "if rt.Validate1($x) {\n\trt.Sink3(\"c\")\n} else {\n\tif rt.Cond() {\n\t\trt.Sink3(\"d\")\n\t}\n\trt.Sink3(\"e\")\n}\nrt.Sink1($x)"},
	{"gd.notValidDiamond", "if !rt.Validate1($x) {\n\trt.Sink3(\"c\")\n} else {\n\trt.Sink3(\"d\")\n}\nrt.Sink1($x)"},
	{"gd.elseArm", "if rt.Validate1($x) {\n} else {\n\trt.Sink1($x)\n}"},
	{"gd.errReturn", "if e := rt.ValidateE1($x); e != nil {\n\treturn\n}\nrt.Sink1($x)"},
	{"gd.errLogOnly", "if e := rt.ValidateE1($x); e != nil {\n\t_ = e\n}\nrt.Sink1($x)"},
	{"gd.errNil", "if e := rt.ValidateE1($x); e == nil {\n\trt.Sink1($x)\n}"},
	{"gd.errNotNilSink", "if e := rt.ValidateE1($x); e != nil {\n\trt.Sink1($x)\n}"},
	{"gd.okVar", "ok := rt.Validate1($x)\nif ok {\n\trt.Sink1($x)\n}"},
	{"gd.okUnused", "ok := rt.Validate1($x)\n_ = ok\nrt.Sink1($x)"},
	{"gd.okNegated", "ok := rt.Validate1($x)\nif !ok {\n\trt.Sink1($x)\n}"},
	// the negation of the validator result exists as a VALUE (stored), not as a swapped branch
	{"gd.notStored", "inv := !rt.Validate1($x)\nif inv {\n\trt.Sink1($x)\n}"},
	{"gd.notStoredElse", "inv := !rt.Validate1($x)\nif inv {\n\trt.Sink3(\"c\")\n} else {\n\trt.Sink1($x)\n}"},
	{"gd.notStoredReturn", "inv := !rt.Validate1($x)\nif inv {\n\treturn\n}\nrt.Sink1($x)"},
	{"gd.errFailedStored", "e := rt.ValidateE1($x)\nfailed := !(e == nil)\nif failed {\n\trt.Sink1($x)\n}"},
	{"gd.errOkStored", "e := rt.ValidateE1($x)\nok := e == nil\nif !ok {\n\trt.Sink1($x)\n}"},
	{"gd.doubleNeg", "inv := !rt.Validate1($x)\nok := !inv\nif ok {\n\trt.Sink3(\"c\")\n} else {\n\trt.Sink1($x)\n}"},
	{"gd.andCond", "if rt.Cond() && rt.Validate1($x) {\n\trt.Sink1($x)\n}"},
	{"gd.orCond", "if rt.Cond() || rt.Validate1($x) {\n\trt.Sink1($x)\n}"},
	{"gd.condAndNot", "if rt.Cond() && !rt.Validate1($x) {\n\treturn\n}\nrt.Sink1($x)"},
	{"gd.oneArm", "if rt.Cond() {\n\tif !rt.Validate1($x) {\n\t\treturn\n\t}\n}\nrt.Sink1($x)"},
	{"gd.oneArmElse", "if rt.Cond() {\n} else {\n\tif !rt.Validate1($x) {\n\t\treturn\n\t}\n}\nrt.Sink1($x)"},
	{"gd.loopBreak", "for rt.Cond() {\n\tif rt.Validate1($x) {\n\t\tbreak\n\t}\n}\nrt.Sink1($x)"},
	{"gd.loopValidated", "for rt.Validate1($x) {\n\trt.Sink1($x)\n\tbreak\n}"},
	{"gd.otherData", "w := \"other\"\nif rt.Validate1(w) {\n\trt.Sink1($x)\n}"},
	{"gd.copy", "w := $x + \"\"\nif rt.Validate1(w) {\n\trt.Sink1($x)\n}"},
	{"gd.assignInside", "gv := \"\"\nif rt.Validate1($x) {\n\tgv = $x\n}\nrt.Sink1(gv)"},
	{"gd.assignOutside", "gv := $x\nif rt.Validate1($x) {\n\tgv = \"b\"\n}\nrt.Sink1(gv)"},
	{"gd.validThenSinkAfter", "if rt.Validate1($x) {\n\trt.Sink3(\"c\")\n}\nrt.Sink1($x)"},
	{"gd.switchValid", "switch {\ncase rt.Validate1($x):\n\trt.Sink1($x)\ndefault:\n\trt.Sink3($x)\n}"},
	{"gd.helperValid", "if $PvalidH($x) {\n\trt.Sink1($x)\n}\nrt.Sink3($x)"},
	{"gd.sanitized", "rt.Sink1(rt.Sanitize1($x))"},
	{"gd.sanitizeDiscard", "rt.Sanitize1($x)\nrt.Sink1($x)"},
	{"gd.sanitizeBranch", "if rt.Cond() {\n\t$x = rt.Sanitize1($x)\n}\nrt.Sink1($x)"},
	{"gd.sanitizeCopy", "w := rt.Sanitize1($x)\nrt.Sink1($x + w)"},
	{"gd.sanitizeThenRetaint", "w := rt.Sanitize1($x)\nw = w + $x\nrt.Sink1(w)"},
	{"gd.sanitizeLoop", "for rt.Cond() {\n\t$x = rt.Sanitize1($x)\n}\nrt.Sink1($x)"},
	{"gd.sanitizeField", "t := &$PT{F: $x}\nt.G = rt.Sanitize1(t.F)\nrt.Sink1(t.F)\nrt.Sink3(t.G)"},
}

func init() {
	decl("validH", "func $PvalidH(s string) bool { return rt.Validate1(s) }")
}

// GuardByID finds a guard.
func GuardByID(id string) *Guard {
	for i := range Guards {
		if Guards[i].ID == id {
			return &Guards[i]
		}
	}
	return nil
}

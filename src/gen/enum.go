package gen

import (
	"fmt"
	"strconv"
	"strings"
)

// Bound is one (k, d) slice of the program space: all typed chains of exactly ≤K steps with ≤D deviations.
type Bound struct{ K, D int }

// ParseBounds parses "k2d0+k1d1".
func ParseBounds(s string) []Bound {
	var out []Bound
	for _, part := range strings.Split(s, "+") {
		var b Bound
		if _, err := fmt.Sscanf(part, "k%dd%d", &b.K, &b.D); err != nil {
			panic("bad bound " + part)
		}
		out = append(out, b)
	}
	return out
}

func hasTag(s *Step, t string) bool {
	for _, x := range s.Tags {
		if x == t {
			return true
		}
	}
	return false
}

// compatible rejects chains that cannot share one package: a user function named like a builtin together with a use
// of that builtin, or two different builtin-colliding declarations.
func compatible(items []Item) bool {
	collide := ""
	builtin := false
	for _, it := range items {
		if hasTag(it.Step, "collide") && it.Step.ID != "c.uerror" {
			if collide != "" && collide != it.Step.ID {
				return false
			}
			collide = it.Step.ID
		}
		if hasTag(it.Step, "builtin") || it.Step.ID == "v.append1" || it.Step.ID == "v.appendN" || it.Step.ID == "a.slt" ||
			it.Step.ID == "m.del" || it.Step.ID == "v.reslice" || it.Step.ID == "v.copyB" || it.Step.ID == "c.variadic" || it.Step.ID == "c.tupBothVariadic" {
			builtin = true
		}
	}
	// a blocking receive after a send that may not have happened (select-send inside a conditional context) never
	// returns natively: such chains are not programs of the family
	condSend := false
	for _, it := range items {
		if it.Step.ID == "h.selSend" && it.Ctx != "straight" {
			condSend = true
		}
		if it.Step.ID == "h.send" || (it.Step.ID == "h.selSend" && it.Ctx == "straight") {
			condSend = false
		}
		if it.Step.ID == "h.recv" && condSend {
			return false
		}
	}
	return collide == "" || !builtin
}

// Enumerate returns all programs inside the union of the bounds, without duplicates, simplest first.
// filter (optional) restricts the steps used.
func Enumerate(bounds []Bound, stepOK func(*Step) bool) []*Prog {
	seen := map[string]bool{}
	var out []*Prog
	add := func(p *Prog) {
		if !p.Valid() || !compatible(p.Items) {
			return
		}
		// early sinks with a "last" helper that uses len: shared-decl collisions with the `last` helper
		sig := p.Sig()
		if seen[sig] {
			return
		}
		seen[sig] = true
		cp := *p
		cp.Items = append([]Item(nil), p.Items...)
		out = append(out, &cp)
	}
	for _, b := range bounds {
		for k := 0; k <= b.K; k++ {
			enumChains(k, stepOK, func(src *SourceForm, chain []*Step) {
				// deviations: non-default source, non-default sink, non-straight contexts
				base := &Prog{Src: src, Snk: &Sinks[0]}
				for _, s := range chain {
					base.Items = append(base.Items, Item{Step: s, Ctx: "straight"})
				}
				dsrc := 0
				if src != &Sources[0] {
					dsrc = 1
				}
				if dsrc > b.D {
					return
				}
				enumDev(base, 0, b.D-dsrc, add)
			})
		}
	}
	return out
}

// enumDev enumerates context deviations from position pos on, then sink deviations.
func enumDev(p *Prog, pos int, left int, add func(*Prog)) {
	if pos == len(p.Items) {
		add(p)
		if left > 0 {
			for i := 1; i < len(Sinks); i++ {
				q := *p
				q.Snk = &Sinks[i]
				add(&q)
			}
		}
		return
	}
	enumDev(p, pos+1, left, add)
	if left > 0 {
		for _, c := range Contexts[1:] {
			if !ctxApplies(p.Items[pos].Step, c) {
				continue
			}
			old := p.Items[pos].Ctx
			p.Items[pos].Ctx = c
			enumDev(p, pos+1, left-1, add)
			p.Items[pos].Ctx = old
		}
	}
}

func enumChains(k int, stepOK func(*Step) bool, f func(*SourceForm, []*Step)) {
	for si := range Sources {
		src := &Sources[si]
		var rec func(kind Kind, chain []*Step)
		rec = func(kind Kind, chain []*Step) {
			if len(chain) == k {
				f(src, chain)
				return
			}
			for i := range Steps {
				s := &Steps[i]
				if s.In != kind || (stepOK != nil && !stepOK(s)) {
					continue
				}
				rec(s.Out, append(chain, s))
			}
		}
		rec(src.Out, nil)
	}
}

// ParseSig rebuilds a program from its signature (used by replay).
func ParseSig(sig string) (*Prog, error) {
	parts := strings.Split(sig, " | ")
	if len(parts) < 2 {
		return nil, fmt.Errorf("bad signature %q", sig)
	}
	p := &Prog{}
	for i := range Sources {
		if Sources[i].ID == parts[0] {
			p.Src = &Sources[i]
		}
	}
	for i := range Sinks {
		if Sinks[i].ID == parts[len(parts)-1] {
			p.Snk = &Sinks[i]
		}
	}
	if g := GuardByID(parts[len(parts)-1]); g != nil {
		p.Guard = g
		p.Snk = &Sinks[0]
	}
	if p.Src == nil || p.Snk == nil {
		return nil, fmt.Errorf("bad source/sink in %q", sig)
	}
	for _, e := range parts[1 : len(parts)-1] {
		id, ctx := e, "straight"
		if j := strings.Index(e, "@"); j >= 0 {
			id, ctx = e[:j], e[j+1:]
		}
		s := StepByID(id)
		if s == nil {
			return nil, fmt.Errorf("unknown step %q", id)
		}
		p.Items = append(p.Items, Item{Step: s, Ctx: Context(ctx)})
	}
	if !p.Valid() {
		return nil, fmt.Errorf("invalid program %q", sig)
	}
	return p, nil
}

// Prefix is the identifier prefix of program i.
func Prefix(i int) string { return "P" + strconv.Itoa(i) + "_" }

// EnumerateGuards returns the C02 family: every guard shape after every S-to-S chain within the bounds.
func EnumerateGuards(bounds []Bound) []*Prog {
	base := Enumerate(bounds, func(s *Step) bool { return !s.Drops })
	var out []*Prog
	seen := map[string]bool{}
	for _, p := range base {
		if p.Snk != &Sinks[0] || p.Src.Out != "S" && len(p.Items) == 0 {
			continue
		}
		for gi := range Guards {
			q := *p
			q.Guard = &Guards[gi]
			if !q.Valid() || seen[q.Sig()] {
				continue
			}
			seen[q.Sig()] = true
			cp := q
			out = append(out, &cp)
		}
	}
	return out
}

package main

import (
	"fmt"
	"go/types"
	"strings"

	"golang.org/x/tools/go/ssa"
)

// alias returns the import alias used for a package path in generated std programs.
func alias(path string) string {
	r := strings.NewReplacer("/", "_", ".", "_", "-", "_")
	return "p_" + r.Replace(path)
}

type stdGenCtx struct {
	imports map[string]bool
	bad     string
}

func (c *stdGenCtx) qual(p *types.Package) string {
	c.imports[p.Path()] = true
	return alias(p.Path())
}

func (c *stdGenCtx) use(path string) string {
	c.imports[path] = true
	return alias(path)
}

func exportedNamed(t types.Type, c *stdGenCtx) bool {
	ok := true
	var walk func(t types.Type, depth int)
	walk = func(t types.Type, depth int) {
		if depth > 6 || !ok {
			return
		}
		switch x := t.(type) {
		case *types.Named:
			if x.Obj().Pkg() != nil && (!x.Obj().Exported() || strings.Contains(x.Obj().Pkg().Path(), "internal")) {
				ok = false
			}
			if x.TypeArgs() != nil && x.TypeArgs().Len() > 0 {
				ok = false
			}
		case *types.Pointer:
			walk(x.Elem(), depth+1)
		case *types.Slice:
			walk(x.Elem(), depth+1)
		case *types.Array:
			walk(x.Elem(), depth+1)
		case *types.Map:
			walk(x.Key(), depth+1)
			walk(x.Elem(), depth+1)
		case *types.Chan:
			walk(x.Elem(), depth+1)
		case *types.Signature:
			for i := 0; i < x.Params().Len(); i++ {
				walk(x.Params().At(i).Type(), depth+1)
			}
			for i := 0; i < x.Results().Len(); i++ {
				walk(x.Results().At(i).Type(), depth+1)
			}
		case *types.TypeParam:
			ok = false
		case *types.Struct:
			for i := 0; i < x.NumFields(); i++ {
				walk(x.Field(i).Type(), depth+1)
			}
		}
	}
	walk(t, 0)
	return ok
}

func typeStr(t types.Type, c *stdGenCtx) string { return types.TypeString(t, c.qual) }

func isNamed(t types.Type, path, name string) bool {
	if p, ok := t.(*types.Pointer); ok {
		t = p.Elem()
	}
	n, ok := t.(*types.Named)
	return ok && n.Obj().Pkg() != nil && n.Obj().Pkg().Path() == path && n.Obj().Name() == name
}

// argExpr returns a Go expression of type t; tainted asks for one that carries the string variable s.
// carrier reports whether a tainted expression exists for this type; pointerLike whether the value can receive data.
func argExpr(t types.Type, tainted bool, c *stdGenCtx) (expr string, ok bool) {
	lit := "\"c\""
	if tainted {
		lit = "s"
	}
	switch u := t.(type) {
	case *types.Basic:
		switch {
		case u.Kind() == types.String:
			return lit, true
		case u.Info()&types.IsInteger != 0:
			if tainted {
				return "", false
			}
			if u.Kind() == types.Int32 || u.Kind() == types.Uint8 {
				return u.Name() + "('a')", true
			}
			return u.Name() + "(1)", true
		case u.Info()&types.IsFloat != 0:
			return u.Name() + "(1)", !tainted
		case u.Kind() == types.Bool:
			return "false", !tainted
		case u.Kind() == types.UnsafePointer:
			return "", false
		}
		return "", false
	case *types.Slice:
		if b, isB := u.Elem().(*types.Basic); isB {
			switch b.Kind() {
			case types.Uint8:
				if tainted {
					return "[]byte(s)", true
				}
				return "make([]byte, 64)", true
			case types.String:
				return "[]string{" + lit + ", \"d\"}", true
			case types.Int32:
				return "[]rune(" + lit + ")", true
			}
		}
		if _, isI := u.Elem().Underlying().(*types.Interface); isI && u.Elem().Underlying().(*types.Interface).Empty() {
			return "[]any{" + lit + "}", true
		}
		if tainted || !exportedNamed(t, c) {
			return "", false
		}
		return "*new(" + typeStr(t, c) + ")", true
	case *types.Pointer:
		switch {
		case isNamed(t, "bytes", "Buffer"):
			return c.use("bytes") + ".NewBufferString(" + lit + ")", true
		case isNamed(t, "strings", "Reader"):
			return c.use("strings") + ".NewReader(" + lit + ")", true
		case isNamed(t, "bytes", "Reader"):
			return c.use("bytes") + ".NewReader([]byte(" + lit + "))", true
		case isNamed(t, "strings", "Builder"):
			return "func() *" + c.use("strings") + ".Builder { b := new(" + c.use("strings") + ".Builder); b.WriteString(" + lit + "); return b }()", true
		case isNamed(t, "bufio", "Reader"):
			return c.use("bufio") + ".NewReader(" + c.use("strings") + ".NewReader(" + lit + "))", true
		case isNamed(t, "bufio", "Scanner"):
			return c.use("bufio") + ".NewScanner(" + c.use("strings") + ".NewReader(" + lit + "))", true
		case isNamed(t, "bufio", "Writer"):
			return c.use("bufio") + ".NewWriter(new(" + c.use("bytes") + ".Buffer))", !tainted
		case isNamed(t, "encoding/json", "Decoder"):
			return c.use("encoding/json") + ".NewDecoder(" + c.use("strings") + ".NewReader(" + lit + "))", true
		case isNamed(t, "encoding/json", "Encoder"):
			return c.use("encoding/json") + ".NewEncoder(new(" + c.use("bytes") + ".Buffer))", !tainted
		}
		if b, isB := u.Elem().(*types.Basic); isB && b.Kind() == types.String {
			return "func() *string { v := " + lit + "; return &v }()", true
		}
		if tainted || !exportedNamed(t, c) {
			return "", false
		}
		if _, isStruct := u.Elem().Underlying().(*types.Struct); isStruct {
			return "new(" + typeStr(u.Elem(), c) + ")", true
		}
		return "new(" + typeStr(u.Elem(), c) + ")", true
	case *types.Named:
		if u.Obj().Pkg() == nil && u.Obj().Name() == "error" {
			return c.use("errors") + ".New(" + lit + ")", true
		}
		if isNamed(t, "io", "Reader") || isNamed(t, "io", "ByteReader") || isNamed(t, "io", "RuneReader") || isNamed(t, "io", "ReadSeeker") ||
			isNamed(t, "io", "ByteScanner") || isNamed(t, "io", "RuneScanner") || isNamed(t, "io", "ReaderAt") || isNamed(t, "io", "WriterTo") {
			return c.use("strings") + ".NewReader(" + lit + ")", true
		}
		if isNamed(t, "io", "Writer") || isNamed(t, "io", "ByteWriter") || isNamed(t, "io", "StringWriter") || isNamed(t, "io", "ReaderFrom") {
			return "new(" + c.use("bytes") + ".Buffer)", !tainted
		}
		if isNamed(t, "io", "ReadCloser") {
			return c.use("io") + ".NopCloser(" + c.use("strings") + ".NewReader(" + lit + "))", true
		}
		if isNamed(t, "fmt", "Stringer") {
			return c.use("errors") + ".New(" + lit + ").(interface{ Error() string; String() string })", false
		}
		if isNamed(t, "context", "Context") {
			return c.use("context") + ".Background()", !tainted
		}
		if b, isB := u.Underlying().(*types.Basic); isB && b.Kind() == types.String && exportedNamed(t, c) {
			return typeStr(t, c) + "(" + lit + ")", true
		}
		if tainted || !exportedNamed(t, c) {
			return "", false
		}
		if _, isI := u.Underlying().(*types.Interface); isI {
			return "", false // a nil interface would only panic
		}
		return "*new(" + typeStr(t, c) + ")", true
	case *types.Interface:
		if u.Empty() {
			return "any(" + lit + ")", true
		}
		return "", false
	case *types.Map:
		if tainted || !exportedNamed(t, c) {
			return "", false
		}
		return typeStr(t, c) + "{}", true
	case *types.Signature, *types.Chan:
		return "", false
	}
	if tainted || !exportedNamed(t, c) {
		return "", false
	}
	return "*new(" + typeStr(t, c) + ")", true
}

func pointerLike(t types.Type) bool {
	switch t.Underlying().(type) {
	case *types.Pointer, *types.Slice, *types.Map, *types.Interface:
		return true
	}
	return false
}

var sinkNames = []string{"Sink1", "Sink3", "Sink4", "Sink5", "Sink6", "Sink7", "Sink8"}

// genStdCalls fills e.Funcs / e.Invocable for a resolved entry.
func genStdCalls(e *StdEntry, f *ssa.Function) {
	if f.TypeParams() != nil && f.TypeParams().Len() > 0 || len(f.TypeArgs()) > 0 {
		e.Invocable = "generic function"
		return
	}
	obj := f.Object()
	if obj == nil || !obj.Exported() || obj.Pkg() == nil || strings.Contains(obj.Pkg().Path(), "internal") {
		e.Invocable = "not an exported package-level function or method"
		return
	}
	sig := f.Signature
	recv := sig.Recv()
	if recv != nil && !exportedNamed(recv.Type(), &stdGenCtx{imports: map[string]bool{}}) {
		e.Invocable = "receiver type is not exported"
		return
	}
	var ptypes []types.Type
	if recv != nil {
		ptypes = append(ptypes, recv.Type())
	}
	for i := 0; i < sig.Params().Len(); i++ {
		t := sig.Params().At(i).Type()
		if sig.Variadic() && i == sig.Params().Len()-1 {
			t = t.(*types.Slice).Elem() // pass exactly one element
		}
		ptypes = append(ptypes, t)
	}
	base := "C" + sanitize(e.Key)
	any := false
	for src := range ptypes {
		c := &stdGenCtx{imports: map[string]bool{}}
		var lines []string
		lines = append(lines, "\ts := rt.Source1()", "\t_ = s")
		okAll := true
		for k, t := range ptypes {
			ex, ok := argExpr(t, k == src, c)
			if !ok {
				okAll = false
				break
			}
			lines = append(lines, fmt.Sprintf("\ta%d := %s", k, ex))
		}
		if !okAll {
			continue
		}
		var call string
		first := 0
		if recv != nil {
			call = fmt.Sprintf("a0.%s(", f.Name())
			first = 1
		} else {
			call = fmt.Sprintf("%s.%s(", c.qual(obj.Pkg()), f.Name())
		}
		var as []string
		for k := first; k < len(ptypes); k++ {
			as = append(as, fmt.Sprintf("a%d", k))
		}
		call += strings.Join(as, ", ") + ")"
		nres := sig.Results().Len()
		var targets []string
		if nres > 0 {
			var rs []string
			for j := 0; j < nres; j++ {
				rs = append(rs, fmt.Sprintf("r%d", j))
			}
			lines = append(lines, "\t"+strings.Join(rs, ", ")+" := "+call)
		} else {
			lines = append(lines, "\t"+call)
		}
		si := 0
		for j := 0; j < nres && si < len(sinkNames); j++ {
			lines = append(lines, fmt.Sprintf("\trt.%s(r%d)", sinkNames[si], j))
			targets = append(targets, fmt.Sprintf("ret%d", j))
			si++
		}
		for k, t := range ptypes {
			if k == src || !pointerLike(t) || si >= len(sinkNames) {
				lines = append(lines, fmt.Sprintf("\t_ = a%d", k))
				continue
			}
			lines = append(lines, fmt.Sprintf("\trt.%s(a%d)", sinkNames[si], k))
			targets = append(targets, fmt.Sprintf("arg%d", k))
			si++
		}
		name := fmt.Sprintf("%s_%d", base, src)
		var imps []string
		for p := range c.imports {
			imps = append(imps, p)
		}
		text := "func " + name + "() {\n" + strings.Join(lines, "\n") + "\n}\n"
		e.Funcs = append(e.Funcs, StdFn{Name: name, Src: src, Text: text, Targets: targets, Imports: imps})
		any = true
	}
	if !any {
		e.Invocable = "no argument position can be synthesised with a token"
	}
}

func sanitize(s string) string {
	var sb strings.Builder
	for _, r := range s {
		if r >= 'a' && r <= 'z' || r >= 'A' && r <= 'Z' || r >= '0' && r <= '9' {
			sb.WriteRune(r)
		} else {
			sb.WriteRune('_')
		}
	}
	return sb.String()
}

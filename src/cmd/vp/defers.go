package main

import (
	"flag"
	"fmt"
	"os"
	"sort"
	"strconv"
	"strings"
	"time"

	"github.com/awslabs/ar-go-tools/analysis/config"
	"github.com/awslabs/ar-go-tools/analysis/defers"
	"github.com/awslabs/ar-go-tools/internal/zzverif/drv"
	"github.com/awslabs/ar-go-tools/internal/zzverif/gen"
	"golang.org/x/tools/go/ssa"
)

func init() { subcmds["defers"] = defersCmd }

// deferFuncs parses bounds "n5d3" (max statement nodes, max nesting).
func deferFuncs(bounds string) []gen.DeferFunc {
	var n, d int
	if _, err := fmt.Sscanf(bounds, "n%dd%d", &n, &d); err != nil {
		panic("bad defers bounds " + bounds)
	}
	return gen.EnumerateDeferFuncs(n, d)
}

type deferRec struct {
	Idx       int      `json:"idx"`
	Sig       string   `json:"sig"`
	Bounded   bool     `json:"bounded"`
	RefCyclic bool     `json:"ref_cyclic"`
	Mismatch  string   `json:"mismatch,omitempty"`
	Stacks    []string `json:"stacks"` // union over normal exits of reported stacks, as defer-id sequences "1,3"
	RefStates int      `json:"ref_states"`
	RefEdges  int      `json:"ref_edges"`
	Ms        int64    `json:"ms"`
	MaxSet    int      `json:"max_set"`
	Exits     int      `json:"exits"` // normal-exit RunDefers compared
}

// deferID returns the constant argument of `defer rt.D(k)`.
func deferID(i ssa.Instruction) string {
	d, ok := i.(*ssa.Defer)
	if !ok || len(d.Call.Args) != 1 {
		return "?"
	}
	if c, ok := d.Call.Args[0].(*ssa.Const); ok {
		return c.Value.ExactString()
	}
	return "?"
}

// refDefers is the reference model: explicit-state search over (block, stack) along the real CFG.
// Returns cyclic (a Defer lies in a non-trivial SCC reachable from entry) and, if not cyclic, the stack sets at every
// RunDefers instruction (as strings of defer ids).
func refDefers(fn *ssa.Function) (cyclic bool, sets map[*ssa.RunDefers]map[string]bool, states, edges int) {
	sets = map[*ssa.RunDefers]map[string]bool{}
	if len(fn.Blocks) == 0 {
		return false, sets, 0, 0
	}
	// reachable blocks
	reach := map[*ssa.BasicBlock]bool{}
	var dfs func(b *ssa.BasicBlock)
	dfs = func(b *ssa.BasicBlock) {
		if reach[b] {
			return
		}
		reach[b] = true
		for _, s := range b.Succs {
			dfs(s)
		}
	}
	dfs(fn.Blocks[0])
	// Tarjan SCC
	index, low := map[*ssa.BasicBlock]int{}, map[*ssa.BasicBlock]int{}
	onst := map[*ssa.BasicBlock]bool{}
	var st []*ssa.BasicBlock
	ctr := 0
	inCycle := map[*ssa.BasicBlock]bool{}
	var sc func(v *ssa.BasicBlock)
	sc = func(v *ssa.BasicBlock) {
		index[v], low[v] = ctr, ctr
		ctr++
		st = append(st, v)
		onst[v] = true
		for _, w := range v.Succs {
			if _, ok := index[w]; !ok {
				sc(w)
				if low[w] < low[v] {
					low[v] = low[w]
				}
			} else if onst[w] && index[w] < low[v] {
				low[v] = index[w]
			}
		}
		if low[v] == index[v] {
			var comp []*ssa.BasicBlock
			for {
				w := st[len(st)-1]
				st = st[:len(st)-1]
				onst[w] = false
				comp = append(comp, w)
				if w == v {
					break
				}
			}
			nontrivial := len(comp) > 1
			if !nontrivial {
				for _, w := range comp[0].Succs {
					if w == comp[0] {
						nontrivial = true
					}
				}
			}
			if nontrivial {
				for _, w := range comp {
					inCycle[w] = true
				}
			}
		}
	}
	sc(fn.Blocks[0])
	for b := range reach {
		if !inCycle[b] {
			continue
		}
		for _, ins := range b.Instrs {
			if _, ok := ins.(*ssa.Defer); ok {
				cyclic = true
			}
		}
	}
	if cyclic {
		return
	}
	type state struct {
		b     *ssa.BasicBlock
		stack string
	}
	seen := map[state]bool{}
	queue := []state{{fn.Blocks[0], ""}}
	seen[queue[0]] = true
	for len(queue) > 0 {
		s := queue[0]
		queue = queue[1:]
		states++
		stack := s.stack
		for _, ins := range s.b.Instrs {
			switch x := ins.(type) {
			case *ssa.Defer:
				if stack == "" {
					stack = deferID(x)
				} else {
					stack += "," + deferID(x)
				}
			case *ssa.RunDefers:
				if sets[x] == nil {
					sets[x] = map[string]bool{}
				}
				sets[x][stack] = true
				stack = ""
			}
		}
		for _, nb := range s.b.Succs {
			edges++
			ns := state{nb, stack}
			if !seen[ns] {
				seen[ns] = true
				queue = append(queue, ns)
			}
		}
	}
	return
}

func stackString(fn *ssa.Function, s defers.Stack) string {
	var parts []string
	for _, e := range s {
		parts = append(parts, deferID(fn.Blocks[e.Block].Instrs[e.Ins]))
	}
	return strings.Join(parts, ",")
}

func defersCmd(args []string) int {
	fs := flag.NewFlagSet("defers", flag.ExitOnError)
	bounds, shard, outp := commonFlags(fs)
	budget := fs.Int("budget", 10, "per-function wall budget in seconds")
	fs.Parse(args)
	funcs := deferFuncs(*bounds)
	si, sn := parseShard(*shard)
	o := newOut(*outp)
	defer o.close()
	// this shard's functions as one package
	var mine []gen.DeferFunc
	var idx []int
	for i, f := range funcs {
		if i%sn == si && i > from {
			mine = append(mine, f)
			idx = append(idx, i)
		}
	}
	// render with the original indices: F<i>
	var sb strings.Builder
	fmt.Fprintf(&sb, "package main\n\nimport \"%s\"\n\nvar _ = rt.Cond\n\n", gen.RTPath)
	for k, f := range mine {
		fmt.Fprintf(&sb, "func F%d() {\n%s}\n", idx[k], f.Body)
	}
	sb.WriteString("func main() {}\n")
	l, err := drv.LoadInProcess(sb.String(), gen.AnalysisRT)
	if err != nil {
		fmt.Fprintln(os.Stderr, "LOADERR", err)
		return 2
	}
	cfg, _ := drv.LoadConfig(drv.Cfg{}.Yaml())
	logger := config.NewLogGroup(cfg)
	for k, f := range mine {
		i := idx[k]
		fmt.Fprintf(os.Stderr, "BEGIN %d %s\n", i, f.Sig)
		fn := l.Main.Func("F" + strconv.Itoa(i))
		if fn == nil {
			fmt.Fprintln(os.Stderr, "LOADERR missing function", i)
			return 2
		}
		done := make(chan bool)
		go func() {
			select {
			case <-done:
			case <-time.After(time.Duration(*budget) * time.Second):
				fmt.Fprintf(os.Stderr, "TIMEOUT %d\n", i)
				os.Exit(3)
			}
		}()
		t0 := time.Now()
		res := defers.AnalyzeFunction(fn, logger)
		ms := time.Since(t0).Milliseconds()
		close(done)
		cyclic, ref, states, edges := refDefers(fn)
		rec := deferRec{Idx: i, Sig: f.Sig, Bounded: res.DeferStackBounded, RefCyclic: cyclic, RefStates: states, RefEdges: edges, Ms: ms}
		if res.DeferStackBounded == cyclic {
			rec.Mismatch = fmt.Sprintf("bounded=%v but reference cyclic=%v", res.DeferStackBounded, cyclic)
		}
		union := map[string]bool{}
		if !cyclic && res.DeferStackBounded {
			for _, b := range fn.Blocks {
				for j, ins := range b.Instrs {
					rd, ok := ins.(*ssa.RunDefers)
					if !ok {
						continue
					}
					// normal exit: RunDefers followed by Return in a block reachable from entry
					normal := false
					if j+1 < len(b.Instrs) {
						_, normal = b.Instrs[j+1].(*ssa.Return)
					}
					refSet, reachable := ref[rd]
					if !reachable || !normal {
						continue
					}
					rec.Exits++
					got := map[string]bool{}
					for _, s := range res.RunDeferSets[rd] {
						got[stackString(fn, s)] = true
					}
					if len(got) > rec.MaxSet {
						rec.MaxSet = len(got)
					}
					for s := range got {
						union[s] = true
					}
					if !sameSet(got, refSet) && rec.Mismatch == "" {
						rec.Mismatch = fmt.Sprintf("at RunDefers in block %d: reported %v, reference %v", b.Index, keys(got), keys(refSet))
					}
				}
			}
		}
		rec.Stacks = keys(union)
		o.emit(rec)
	}
	fmt.Fprintf(os.Stderr, "DONE\n")
	return 0
}

func sameSet(a, b map[string]bool) bool {
	if len(a) != len(b) {
		return false
	}
	for k := range a {
		if !b[k] {
			return false
		}
	}
	return true
}

func keys(m map[string]bool) []string {
	var out []string
	for k := range m {
		out = append(out, k)
	}
	sort.Strings(out)
	return out
}

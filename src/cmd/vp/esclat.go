package main

import (
	"flag"
	"fmt"
	"os"

	"github.com/awslabs/ar-go-tools/analysis/config"
	df "github.com/awslabs/ar-go-tools/analysis/dataflow"
	"github.com/awslabs/ar-go-tools/analysis/escape"
	"github.com/awslabs/ar-go-tools/internal/zzverif/drv"
	"github.com/awslabs/ar-go-tools/internal/zzverif/gen"
)

func init() {
	subcmds["esclat"] = esclatCmd
	subcmds["escfun"] = escfunCmd
}

type esclatRec struct {
	Universe   []string `json:"universe"`
	Depth      int      `json:"depth"`
	States     int      `json:"states"`
	Ops        int      `json:"ops"`
	Pairs      int      `json:"pairs"`
	Triples    int      `json:"triples"`
	Incomp     int      `json:"incomparable_pairs"`
	Violations []string `json:"violations"`
	Samples    []string `json:"samples"`
}

// esclatCmd: explicit-state exploration of the escape-graph lattice over a small node universe.
func esclatCmd(args []string) int {
	fs := flag.NewFlagSet("esclat", flag.ExitOnError)
	outp := fs.String("out", "", "output")
	depth := fs.Int("depth", 3, "BFS depth (operations from the empty graph)")
	tripleDepth := fs.Int("tripledepth", 2, "states up to this depth take part in the associativity check")
	uni := fs.String("universe", "var,alloc,param", "node kinds")
	fs.Parse(args)
	kinds := splitList(*uni)
	u := escape.VerifNewUniverse(kinds)
	rec := esclatRec{Universe: kinds, Depth: *depth}
	type node struct {
		g     *escape.EscapeGraph
		depth int
		path  string
	}
	seen := map[string]bool{}
	var all []node
	start := node{u.Empty(), 0, "empty"}
	seen[escape.VerifCanon(start.g)] = true
	all = append(all, start)
	for qi := 0; qi < len(all); qi++ {
		cur := all[qi]
		if cur.depth == *depth {
			continue
		}
		for i := range u.Nodes {
			for j := range u.Nodes {
				if kinds[j] == "var" {
					continue // variables are not pointed to
				}
				for _, internal := range []bool{true, false} {
					g := cur.g.Clone()
					u.VerifAddEdge(g, i, j, internal)
					rec.Ops++
					if k := escape.VerifCanon(g); !seen[k] {
						seen[k] = true
						all = append(all, node{g, cur.depth + 1, fmt.Sprintf("%s;edge(%s->%s,int=%v)", cur.path, u.Names[i], u.Names[j], internal)})
					}
				}
			}
			for s := 1; s <= 2; s++ {
				g := cur.g.Clone()
				u.VerifRaise(g, i, s)
				rec.Ops++
				if k := escape.VerifCanon(g); !seen[k] {
					seen[k] = true
					all = append(all, node{g, cur.depth + 1, fmt.Sprintf("%s;raise(%s,%d)", cur.path, u.Names[i], s)})
				}
			}
		}
	}
	rec.States = len(all)
	bad := func(f string, a ...any) {
		if len(rec.Violations) < 20 {
			rec.Violations = append(rec.Violations, fmt.Sprintf(f, a...))
		}
	}
	for _, a := range all {
		if !escape.VerifJoin(a.g, a.g).Matches(a.g) {
			bad("idempotence: g⊔g != g for g = [%s]", a.path)
		}
	}
	for i, a := range all {
		for j, b := range all {
			if j < i {
				continue
			}
			rec.Pairs++
			ab, ba := escape.VerifJoin(a.g, b.g), escape.VerifJoin(b.g, a.g)
			if !ab.Matches(ba) {
				bad("commutativity: g⊔h != h⊔g for g = [%s], h = [%s]: %s vs %s", a.path, b.path, escape.VerifCanon(ab), escape.VerifCanon(ba))
			}
			if !escape.VerifLeq(a.g, ab) || !escape.VerifLeq(b.g, ab) {
				bad("upper bound: g⊔h is not >= both operands for g = [%s], h = [%s]", a.path, b.path)
			}
			la, lb := escape.VerifLeq(a.g, b.g), escape.VerifLeq(b.g, a.g)
			if la && !ab.Matches(b.g) {
				bad("absorption: g <= h but g⊔h != h for g = [%s], h = [%s]", a.path, b.path)
			}
			if lb && !ab.Matches(a.g) {
				bad("absorption: h <= g but g⊔h != g for g = [%s], h = [%s]", a.path, b.path)
			}
			// the equality used by every fixpoint test of the analysis (Matches) must be the equality of the ordering
			if m := a.g.Matches(b.g); m != (la && lb) {
				bad("equality: Matches(g,h) = %v but g<=h = %v and h<=g = %v for g = [%s] (%s), h = [%s] (%s)", m, la, lb, a.path, escape.VerifCanon(a.g), b.path, escape.VerifCanon(b.g))
			}
			if !la && !lb {
				rec.Incomp++
			}
		}
	}
	var small []node
	for _, a := range all {
		if a.depth <= *tripleDepth {
			small = append(small, a)
		}
	}
	for _, a := range small {
		for _, b := range small {
			for _, c := range small {
				rec.Triples++
				l := escape.VerifJoin(escape.VerifJoin(a.g, b.g), c.g)
				r := escape.VerifJoin(a.g, escape.VerifJoin(b.g, c.g))
				if !l.Matches(r) {
					bad("associativity: (g⊔h)⊔k != g⊔(h⊔k) for [%s], [%s], [%s]", a.path, b.path, c.path)
				}
			}
		}
	}
	for i := 0; i < len(all) && len(rec.Samples) < 4; i += len(all)/4 + 1 {
		rec.Samples = append(rec.Samples, all[i].path+" => "+escape.VerifCanon(all[i].g))
	}
	o := newOut(*outp)
	o.emit(rec)
	o.close()
	fmt.Fprintln(os.Stderr, "DONE")
	return 0
}

type escfunRec struct {
	Idx       int      `json:"idx"`
	Sig       string   `json:"sig"`
	Atoms     []string `json:"atoms"`
	Functions int      `json:"functions"`
	MonoInst  int      `json:"mono_instances"`
	OrdStates int      `json:"order_states"`
	OrdTrans  int      `json:"order_transitions"`
	OrdCapped int      `json:"order_capped"`
	Viol      []string `json:"viol"`
	Panic     string   `json:"panic,omitempty"`
	LoadErr   string   `json:"load_err,omitempty"`
}

// escfunCmd: monotonicity of the real transfer function under enumerated weakenings and order independence of the
// block-level fixpoint (all worklist orders) for every summarised function of every subject program.
func escfunCmd(args []string) int {
	fs := flag.NewFlagSet("escfun", flag.ExitOnError)
	bounds, shard, outp := commonFlags(fs)
	fam := fs.String("family", "snippets", "program family")
	depth := fs.Int("weaken", 1, "weakening depth")
	maxBlocks := fs.Int("maxblocks", 6, "order independence only for functions with at most this many blocks")
	fs.Parse(args)
	subs := subjects(*fam, *bounds)
	si, sn := parseShard(*shard)
	o := newOut(*outp)
	defer o.close()
	for i, s := range subs {
		if i%sn != si || i <= from {
			continue
		}
		fmt.Fprintf(os.Stderr, "BEGIN %d %s\n", i, s.Sig)
		rec := escfunRec{Idx: i, Sig: s.Sig, Atoms: s.Atoms}
		func() {
			defer func() {
				if r := recover(); r != nil {
					rec.Panic = fmt.Sprint(r) + " @ " + drv.PanicStack()
				}
			}()
			l, err := drv.LoadInProcess(s.Src, gen.AnalysisRT)
			if err != nil {
				rec.LoadErr = err.Error()
				return
			}
			cfg, _ := drv.LoadConfig(drv.Cfg{Escape: true}.Yaml())
			st, err := df.NewInitializedAnalyzerState(l.Prog, nil, config.NewLogGroup(cfg), cfg)
			if err != nil {
				rec.LoadErr = err.Error()
				return
			}
			if err := escape.InitializeEscapeAnalysisState(st); err != nil {
				rec.LoadErr = "escape: " + err.Error()
				return
			}
			for _, f := range escape.VerifFunctions(st) {
				rec.Functions++
				v, n := f.VerifMonotonicity(*depth, 400)
				rec.MonoInst += n
				rec.Viol = append(rec.Viol, v...)
				if f.NumBlocks() <= *maxBlocks {
					v, sN, tN, capped := f.VerifOrderIndependence(20000)
					rec.OrdStates += sN
					rec.OrdTrans += tN
					if capped {
						rec.OrdCapped++
					}
					rec.Viol = append(rec.Viol, v...)
				}
			}
		}()
		if len(rec.Viol) > 8 {
			rec.Viol = rec.Viol[:8]
		}
		o.emit(rec)
	}
	fmt.Fprintf(os.Stderr, "DONE\n")
	return 0
}

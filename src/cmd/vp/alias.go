package main

import (
	"flag"
	"fmt"
	"go/constant"
	"os"
	"sort"

	"github.com/awslabs/ar-go-tools/analysis/config"
	df "github.com/awslabs/ar-go-tools/analysis/dataflow"
	"github.com/awslabs/ar-go-tools/internal/pointer"
	"github.com/awslabs/ar-go-tools/internal/zzverif/drv"
	"github.com/awslabs/ar-go-tools/internal/zzverif/gen"
	"golang.org/x/tools/go/ssa"
)

func init() { subcmds["alias"] = aliasCmd }

type aliasRec struct {
	Idx      int      `json:"idx"`
	Sig      string   `json:"sig"`
	Atoms    []string `json:"atoms"`
	Probes   []int    `json:"probes"`    // probe ids with a points-to query
	NoQuery  []int    `json:"no_query"`  // probe ids whose value has no query
	MayAlias []string `json:"may_alias"` // "i=j" pairs the analysis says may alias
	Allocs   []string `json:"allocs"`    // "i@k": Mark k's allocation is in the points-to set of probe i
	Panic    string   `json:"panic,omitempty"`
	LoadErr  string   `json:"load_err,omitempty"`
}

func constInt(v ssa.Value) (int, bool) {
	c, ok := v.(*ssa.Const)
	if !ok || c.Value == nil || c.Value.Kind() != constant.Int {
		return 0, false
	}
	n, _ := constant.Int64Val(c.Value)
	return int(n), true
}

func aliasCmd(args []string) int {
	fs := flag.NewFlagSet("alias", flag.ExitOnError)
	bounds, shard, outp := commonFlags(fs)
	fs.Parse(args)
	subs := subjects("alias", *bounds)
	si, sn := parseShard(*shard)
	o := newOut(*outp)
	defer o.close()
	for i, s := range subs {
		if i%sn != si || i <= from {
			continue
		}
		fmt.Fprintf(os.Stderr, "BEGIN %d %s\n", i, s.Sig)
		rec := aliasRec{Idx: i, Sig: s.Sig, Atoms: s.Atoms}
		func() {
			defer func() {
				if r := recover(); r != nil {
					rec.Panic = fmt.Sprint(r) + " @ " + drv.PanicStack()
				}
			}()
			l, err := drv.LoadInProcess(s.Src, gen.AnalysisRT)
			if err != nil {
				rec.LoadErr = err.Error()
				return
			}
			cfg, _ := drv.LoadConfig(drv.Cfg{}.Yaml())
			st, err := df.NewInitializedAnalyzerState(l.Prog, nil, config.NewLogGroup(cfg), cfg)
			if err != nil {
				rec.LoadErr = err.Error()
				return
			}
			pa := st.PointerAnalysis
			probeVal := map[int]ssa.Value{}
			markOf := map[ssa.Value]int{} // allocation value -> mark id
			for f := range st.ReachableFunctions() {
				if f.Pkg != l.Main && (f.Parent() == nil || f.Parent().Pkg != l.Main) {
					continue
				}
				for _, b := range f.Blocks {
					for _, ins := range b.Instrs {
						c, ok := ins.(*ssa.Call)
						if !ok || c.Call.StaticCallee() == nil {
							continue
						}
						switch {
						case c.Call.StaticCallee().Name() == "Probe" && len(c.Call.Args) == 2:
							id, ok := constInt(c.Call.Args[0])
							if !ok {
								continue
							}
							v := c.Call.Args[1]
							if mi, ok := v.(*ssa.MakeInterface); ok {
								v = mi.X
							}
							probeVal[id] = v
						case len(c.Call.Args) == 2 && (c.Call.StaticCallee().Name() == "Mark" || c.Call.StaticCallee().Origin() != nil && c.Call.StaticCallee().Origin().Name() == "Mark"):
							if k, ok := constInt(c.Call.Args[0]); ok {
								markOf[c.Call.Args[1]] = k
							}
						}
					}
				}
			}
			ptrs := map[int]pointer.Pointer{}
			var ids []int
			for id, v := range probeVal {
				if p, ok := pa.Queries[v]; ok {
					ptrs[id] = p
					ids = append(ids, id)
				} else {
					rec.NoQuery = append(rec.NoQuery, id)
				}
			}
			sort.Ints(ids)
			sort.Ints(rec.NoQuery)
			rec.Probes = ids
			for a := 0; a < len(ids); a++ {
				for b := a + 1; b < len(ids); b++ {
					if ptrs[ids[a]].MayAlias(ptrs[ids[b]]) {
						rec.MayAlias = append(rec.MayAlias, fmt.Sprintf("%d=%d", ids[a], ids[b]))
					}
				}
				for _, lab := range ptrs[ids[a]].PointsTo().Labels() {
					if k, ok := markOf[lab.Value()]; ok {
						rec.Allocs = append(rec.Allocs, fmt.Sprintf("%d@%d", ids[a], k))
					}
				}
			}
			sort.Strings(rec.Allocs)
		}()
		o.emit(rec)
	}
	fmt.Fprintf(os.Stderr, "DONE\n")
	return 0
}

package main

import (
	"encoding/json"
	"flag"
	"fmt"
	"io"
	"os"

	"github.com/awslabs/ar-go-tools/analysis/maypanic"
	"github.com/awslabs/ar-go-tools/internal/zzverif/drv"
	"github.com/awslabs/ar-go-tools/internal/zzverif/gen"
)

func init() { subcmds["gopanic"] = gopanicCmd }

type gopanicRec struct {
	Idx        int      `json:"idx"`
	Sig        string   `json:"sig"`
	Atoms      []string `json:"atoms"`
	MustReport bool     `json:"must_report"`
	Entries    []string `json:"entries"`
	Reported   []string `json:"reported"`          // function names reported with exclude = nil
	ReportedX  []string `json:"reported_excl_other"` // with an exclusion that matches nothing
	Creators   int      `json:"creators"`
	Panic      string   `json:"panic,omitempty"`
	LoadErr    string   `json:"load_err,omitempty"`
}

// captureStdout runs f with os.Stdout redirected into a buffer.
func captureStdout(f func()) string {
	old := os.Stdout
	r, w, err := os.Pipe()
	if err != nil {
		f()
		return ""
	}
	os.Stdout = w
	done := make(chan string)
	go func() {
		b, _ := io.ReadAll(r)
		done <- string(b)
	}()
	func() {
		defer func() {
			os.Stdout = old
			w.Close()
		}()
		f()
	}()
	return <-done
}

func gopanicCmd(args []string) int {
	fs := flag.NewFlagSet("gopanic", flag.ExitOnError)
	_, shard, outp := commonFlags(fs)
	fs.Parse(args)
	cases := gen.GoPanicFamily()
	si, sn := parseShard(*shard)
	o := newOut(*outp)
	defer o.close()
	for i, c := range cases {
		if i%sn != si || i <= from {
			continue
		}
		fmt.Fprintf(os.Stderr, "BEGIN %d %s\n", i, c.Sig)
		rec := gopanicRec{Idx: i, Sig: c.Sig, Atoms: c.Atoms, MustReport: c.MustReport, Entries: c.Entries}
		func() {
			defer func() {
				if r := recover(); r != nil {
					rec.Panic = fmt.Sprint(r)
				}
			}()
			load := func() (*drv.Loaded, error) {
				if c.LibPath != "" {
					return drv.LoadInProcessExtra(c.AnSrc, gen.AnalysisRT, []drv.ExtraPkg{{Path: c.LibPath, Src: c.LibSrc}})
				}
				return drv.LoadInProcess(c.Src, gen.AnalysisRT)
			}
			l, err := load()
			if err != nil {
				rec.LoadErr = err.Error()
				return
			}
			parse := func(out string) ([]string, int) {
				var findings []struct {
					GoRoutine struct{ Function string }
					Creators  []struct{ Line int }
				}
				var names []string
				n := 0
				if err := json.Unmarshal([]byte(out), &findings); err != nil {
					return []string{"<unparsable: " + out + ">"}, 0
				}
				for _, f := range findings {
					names = append(names, f.GoRoutine.Function)
					n += len(f.Creators)
				}
				return names, n
			}
			rec.Reported, rec.Creators = parse(captureStdout(func() { maypanic.MayPanicAnalyzer(l.Prog, nil, true) }))
			l2, _ := load()
			rec.ReportedX, _ = parse(captureStdout(func() { maypanic.MayPanicAnalyzer(l2.Prog, []string{"qq-no-such-dir"}, true) }))
		}()
		o.emit(rec)
	}
	fmt.Fprintf(os.Stderr, "DONE\n")
	return 0
}

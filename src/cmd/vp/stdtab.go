package main

import (
	"flag"
	"go/build"
	"fmt"
	"go/types"
	"os"
	"sort"
	"strings"

	"github.com/awslabs/ar-go-tools/analysis/summaries"
	"golang.org/x/tools/go/ssa"
	"golang.org/x/tools/go/ssa/ssautil"
)

func init() { subcmds["stdtab"] = stdtabCmd }

// StdEntry describes one entry of the predefined summary table.
type StdEntry struct {
	Pkg        string   `json:"pkg"`
	Key        string   `json:"key"`
	Resolved   bool     `json:"resolved"`
	NParams    int      `json:"nparams"`
	NResults   int      `json:"nresults"`
	ArgsRows   int      `json:"args_rows"`
	RetsRows   int      `json:"rets_rows"`
	Misaligned []string `json:"misaligned,omitempty"`
	Args       [][]int  `json:"args"`
	Rets       [][]int  `json:"rets"`
	Invocable  string   `json:"invocable"` // "" = yes, else the reason why not
	Funcs      []StdFn  `json:"funcs,omitempty"`
}

// StdFn is one generated one-call function: the token enters through parameter Src only.
type StdFn struct {
	Name    string   `json:"name"`
	Src     int      `json:"src"`
	Text    string   `json:"text"`
	Targets []string `json:"targets"` // parallel to the sink calls in Text, in order: "ret0", "arg2", ...
	Imports []string `json:"imports"`
}

func tablePackages() []string {
	var ps []string
	for p := range summaries.VerifStdPackages() {
		ps = append(ps, p)
	}
	sort.Strings(ps)
	return ps
}

func stdtabCmd(args []string) int {
	fs := flag.NewFlagSet("stdtab", flag.ExitOnError)
	_, _, outp := commonFlags(fs)
	fs.Parse(args)
	ents, err := stdEntries()
	if err != nil {
		fmt.Fprintln(os.Stderr, "LOADERR", err)
		return 2
	}
	o := newOut(*outp)
	defer o.close()
	for _, e := range ents {
		o.emit(e)
	}
	fmt.Fprintf(os.Stderr, "DONE\n")
	return 0
}

// existingStdPackages reports which table keys are importable packages of this toolchain (keys like "container" or
// "debug" are prefixes, others are excluded by build constraints).
func existingStdPackages(ps []string) []string {
	var out []string
	for _, p := range ps {
		if strings.Contains(p, "internal") || p == "builtin" {
			continue
		}
		bp, err := build.Default.Import(p, "", 0)
		if err != nil || len(bp.GoFiles)+len(bp.CgoFiles) == 0 || bp.Name == "main" {
			continue
		}
		out = append(out, p)
	}
	return out
}

func stdEntries() ([]StdEntry, error) {
	tab := summaries.VerifStdPackages()
	pkgs := existingStdPackages(tablePackages())
	st, _, err := loadStd(pkgs)
	if err != nil {
		return nil, err
	}
	byName := map[string]*ssa.Function{}
	for f := range ssautil.AllFunctions(st.Program) {
		byName[f.String()] = f
	}
	var out []StdEntry
	seenKey := map[string]bool{}
	for _, p := range tablePackages() {
		var keys []string
		for k := range tab[p] {
			keys = append(keys, k)
		}
		sort.Strings(keys)
		for _, k := range keys {
			if seenKey[k] {
				continue // the same table is registered under several package keys
			}
			seenKey[k] = true
			s := tab[p][k]
			e := StdEntry{Pkg: p, Key: k, ArgsRows: len(s.Args), RetsRows: len(s.Rets), Args: s.Args, Rets: s.Rets}
			f := byName[k]
			if f == nil {
				e.Invocable = "key resolves to no function"
				out = append(out, e)
				continue
			}
			e.Resolved = true
			e.NParams = len(f.Params)
			e.NResults = f.Signature.Results().Len()
			if len(s.Args) > e.NParams {
				e.Misaligned = append(e.Misaligned, fmt.Sprintf("Args has %d rows, function has %d parameters", len(s.Args), e.NParams))
			}
			if len(s.Rets) > e.NParams {
				e.Misaligned = append(e.Misaligned, fmt.Sprintf("Rets has %d rows, function has %d parameters", len(s.Rets), e.NParams))
			}
			for i, row := range s.Args {
				for _, d := range row {
					if d < 0 || d >= e.NParams {
						e.Misaligned = append(e.Misaligned, fmt.Sprintf("Args[%d] lists parameter %d of %d", i, d, e.NParams))
					}
				}
			}
			for i, row := range s.Rets {
				for _, d := range row {
					if d < 0 || d >= e.NResults {
						e.Misaligned = append(e.Misaligned, fmt.Sprintf("Rets[%d] lists result %d of %d", i, d, e.NResults))
					}
				}
			}
			genStdCalls(&e, f)
			out = append(out, e)
		}
	}
	return out, nil
}

var _ = types.Typ

package main

import (
	"flag"
	"fmt"
	"go/constant"
	"os"
	"sort"

	"github.com/awslabs/ar-go-tools/analysis/config"
	df "github.com/awslabs/ar-go-tools/analysis/dataflow"
	"github.com/awslabs/ar-go-tools/analysis/reachability"
	"github.com/awslabs/ar-go-tools/internal/zzverif/drv"
	"github.com/awslabs/ar-go-tools/internal/zzverif/gen"
	"golang.org/x/tools/go/callgraph"
	"golang.org/x/tools/go/ssa"
	"golang.org/x/tools/go/ssa/ssautil"
)

func init() { subcmds["dispatch"] = dispatchCmd }

type dispRec struct {
	Idx        int                 `json:"idx"`
	Sig        string              `json:"sig"`
	Atoms      []string            `json:"atoms"`
	IDs        []string            `json:"ids"`       // every function that calls rt.Enter
	PtrReach   []string            `json:"ptr_reach"` // ids in state.ReachableFunctions()
	Edges      []string            `json:"edges"`     // "a>b": call-graph path a->b through synthetic wrappers only
	EdgesCG    []string            `json:"edges_cg"`  // same, in the stand-alone call graph df.PointerAnalysis.ComputeCallgraph (no queries)
	ReachCG    []string            `json:"reach_cg"`  // ids in CallGraphReachable of that graph
	Resolve    []string            `json:"resolve"`   // "a>b": b among ResolveCallee of some call instruction of a (modulo wrappers)
	Find       map[string][]string `json:"find"`      // root selection -> ids in FindReachable
	CGNotFind  []string            `json:"cg_not_find"`
	FindNotAll []string            `json:"find_not_all"`
	NonMono    []string            `json:"non_monotone"`
	Panic      string              `json:"panic,omitempty"`
	LoadErr    string              `json:"load_err,omitempty"`
}

// enterID returns the id a function announces with rt.Enter("id").
func enterID(f *ssa.Function) string {
	for _, b := range f.Blocks {
		for _, ins := range b.Instrs {
			c, ok := ins.(*ssa.Call)
			if !ok {
				continue
			}
			if callee := c.Call.StaticCallee(); callee != nil && callee.Name() == "Enter" && len(c.Call.Args) == 1 {
				if k, ok := c.Call.Args[0].(*ssa.Const); ok && k.Value.Kind() == constant.String {
					return constant.StringVal(k.Value)
				}
			}
		}
	}
	return ""
}

func dispatchCmd(args []string) int {
	fs := flag.NewFlagSet("dispatch", flag.ExitOnError)
	bounds, shard, outp := commonFlags(fs)
	fam := fs.String("family", "dispatch", "program family")
	fs.Parse(args)
	subs := subjects(*fam, *bounds)
	si, sn := parseShard(*shard)
	o := newOut(*outp)
	defer o.close()
	for i, s := range subs {
		if i%sn != si || i <= from {
			continue
		}
		fmt.Fprintf(os.Stderr, "BEGIN %d %s\n", i, s.Sig)
		rec := dispRec{Idx: i, Sig: s.Sig, Atoms: s.Atoms, Find: map[string][]string{}}
		func() {
			defer func() {
				if r := recover(); r != nil {
					rec.Panic = fmt.Sprint(r)
				}
			}()
			l, err := drv.LoadInProcess(s.Src, gen.AnalysisRT)
			if err != nil {
				rec.LoadErr = err.Error()
				return
			}
			cfg, _ := drv.LoadConfig(drv.Cfg{}.Yaml())
			st, err := df.NewInitializedAnalyzerState(l.Prog, nil, config.NewLogGroup(cfg), cfg)
			if err != nil {
				rec.LoadErr = err.Error()
				return
			}
			all := ssautil.AllFunctions(l.Prog)
			idOf := map[*ssa.Function]string{}
			for f := range all {
				if id := enterID(f); id != "" && f.Pkg != l.RT {
					idOf[f] = id
					rec.IDs = append(rec.IDs, id)
				}
			}
			if m := l.Main.Func("main"); m != nil {
				idOf[m] = "main"
			}
			sort.Strings(rec.IDs)
			for f := range st.ReachableFunctions() {
				if id, ok := idOf[f]; ok {
					rec.PtrReach = append(rec.PtrReach, id)
				}
			}
			sort.Strings(rec.PtrReach)
			cg := st.PointerAnalysis.CallGraph
			edgesOf := func(cg *callgraph.Graph) []string {
				edgeSet := map[string]bool{}
				for f, a := range idOf {
					n := cg.Nodes[f]
					if n == nil {
						continue
					}
					// DFS from n through synthetic (id-less) functions only
					seen := map[*callgraph.Node]bool{n: true}
					stack := []*callgraph.Node{n}
					for len(stack) > 0 {
						cur := stack[len(stack)-1]
						stack = stack[:len(stack)-1]
						for _, e := range cur.Out {
							if seen[e.Callee] {
								continue
							}
							seen[e.Callee] = true
							if b, ok := idOf[e.Callee.Func]; ok {
								edgeSet[a+">"+b] = true
								continue
							}
							if e.Callee.Func.Pkg == l.RT {
								continue
							}
							stack = append(stack, e.Callee) // wrapper, thunk, bound method, instantiation, anonymous without id
						}
					}
				}
				var out []string
				for e := range edgeSet {
					out = append(out, e)
				}
				sort.Strings(out)
				return out
			}
			rec.Edges = edgesOf(cg)
			// the stand-alone call graph of the callgraph-based tools (render, compare): pointer analysis without queries
			cg2, err := df.PointerAnalysis.ComputeCallgraph(l.Prog)
			if err != nil {
				rec.LoadErr = "ComputeCallgraph: " + err.Error()
				return
			}
			rec.EdgesCG = edgesOf(cg2)
			for f := range df.CallGraphReachable(cg2, false, false) {
				if id, ok := idOf[f]; ok {
					rec.ReachCG = append(rec.ReachCG, id)
				}
			}
			sort.Strings(rec.ReachCG)
			// callee resolution used by the dataflow analysis
			resSet := map[string]bool{}
			for f, a := range idOf {
				for _, b := range f.Blocks {
					for _, ins := range b.Instrs {
						ci, ok := ins.(ssa.CallInstruction)
						if !ok {
							continue
						}
						callees, err := st.ResolveCallee(ci, true)
						if err != nil {
							continue
						}
						for callee := range callees {
							// follow wrappers statically
							seenW := map[*ssa.Function]bool{}
							var walk func(g *ssa.Function)
							walk = func(g *ssa.Function) {
								if g == nil || seenW[g] {
									return
								}
								seenW[g] = true
								if id, ok := idOf[g]; ok {
									resSet[a+">"+id] = true
									return
								}
								for _, bb := range g.Blocks {
									for _, in2 := range bb.Instrs {
										if c2, ok := in2.(ssa.CallInstruction); ok {
											if sc := c2.Common().StaticCallee(); sc != nil {
												if sc.Pkg != l.RT {
													walk(sc)
												}
											} else if cs, err := st.ResolveCallee(c2, true); err == nil {
												// a wrapper of an interface method (I.M$bound, I.M$thunk) invokes: resolve the
												// inner call the way the dataflow analysis does
												for c := range cs {
													walk(c)
												}
											}
										}
									}
								}
							}
							walk(callee)
						}
					}
				}
			}
			for e := range resSet {
				rec.Resolve = append(rec.Resolve, e)
			}
			sort.Strings(rec.Resolve)
			// reachability tool
			sets := map[string]map[*ssa.Function]bool{}
			for _, sel := range []struct {
				name           string
				exMain, exInit bool
			}{{"all", false, false}, {"nomain", true, false}, {"noinit", false, true}, {"none", true, true}} {
				r := reachability.FindReachable(st, sel.exMain, sel.exInit, nil)
				sets[sel.name] = r
				ids := []string{}
				for f := range r {
					if id, ok := idOf[f]; ok {
						ids = append(ids, id)
					}
					if !all[f] {
						rec.FindNotAll = append(rec.FindNotAll, sel.name+":"+f.String())
					}
				}
				sort.Strings(ids)
				rec.Find[sel.name] = ids
			}
			// every function reachable in the pointer call graph must be reported
			seenN := map[*callgraph.Node]bool{}
			var visit func(n *callgraph.Node)
			visit = func(n *callgraph.Node) {
				if n == nil || seenN[n] {
					return
				}
				seenN[n] = true
				if n.Func != nil && n != cg.Root && !sets["all"][n.Func] {
					rec.CGNotFind = append(rec.CGNotFind, n.Func.String())
				}
				for _, e := range n.Out {
					visit(e.Callee)
				}
			}
			visit(cg.Root)
			sort.Strings(rec.CGNotFind)
			for _, pair := range [][2]string{{"nomain", "all"}, {"noinit", "all"}, {"none", "nomain"}, {"none", "noinit"}} {
				for f := range sets[pair[0]] {
					if !sets[pair[1]][f] {
						rec.NonMono = append(rec.NonMono, fmt.Sprintf("%s in %s but not in %s", f.String(), pair[0], pair[1]))
					}
				}
			}
		}()
		o.emit(rec)
	}
	fmt.Fprintf(os.Stderr, "DONE\n")
	return 0
}

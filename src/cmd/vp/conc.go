package main

import (
	"flag"
	"fmt"
	"os"
	"path/filepath"
	"sort"
	"strings"

	"github.com/awslabs/ar-go-tools/analysis/config"
	df "github.com/awslabs/ar-go-tools/analysis/dataflow"
	"github.com/awslabs/ar-go-tools/analysis/escape"
	"github.com/awslabs/ar-go-tools/internal/zzverif/drv"
	"github.com/awslabs/ar-go-tools/internal/zzverif/gen"
	"golang.org/x/tools/go/ssa"
)

func init() { subcmds["conc"] = concCmd }

// concNativeFiles: the shim renderings, a copy of the scheduler, and a runner that explores every interleaving.
func concNativeFiles(bounds string) (map[string]string, int) {
	files := map[string]string{}
	files["go.mod"] = "module zsubj\n\ngo 1.22\n"
	files["rt/rt.go"] = gen.NativeRT
	es, _ := os.ReadDir("/verif/src/vsched")
	for _, e := range es {
		if strings.HasSuffix(e.Name(), ".go") {
			b, _ := os.ReadFile(filepath.Join("/verif/src/vsched", e.Name()))
			files["vsched/"+e.Name()] = string(b)
		}
	}
	cases := gen.ConcFamily()
	var imports, regs strings.Builder
	for i, c := range cases {
		name := fmt.Sprintf("conc%d", i)
		files[name+"/p.go"] = strings.Replace(c.Shim, "package PKG", "package "+name, 1)
		fmt.Fprintf(&imports, "\t\"zsubj/%s\"\n", name)
		fmt.Fprintf(&regs, "\t{%q, %s.Main},\n", fmt.Sprint(i), name)
	}
	files["main.go"] = `package main

import (
	"encoding/json"
	"fmt"
	"os"
	"sort"
	"zsubj/rt"
	"zsubj/vsched"
` + imports.String() + `)

type prog struct {
	name string
	main func()
}

var progs = []prog{
` + regs.String() + `}

type result struct {
	Name        string
	Flows       []string
	SharedLines []string // plain lines that touched a location also touched by another goroutine in the same execution
	Lines       []string // all lines that logged an access
	Execs       int
	Transitions int
	States      int
	Capped      bool
	Deadlocks   int
	Panics      int
	Bound       int
	Outcomes    int
}

func main() {
	var i, n, bound int
	fmt.Sscanf(os.Args[1], "%d/%d", &i, &n)
	fmt.Sscanf(os.Args[2], "%d", &bound)
	out := os.Stdout
	if devnull, err := os.OpenFile(os.DevNull, os.O_WRONLY, 0); err == nil {
		os.Stdout = devnull
	}
	enc := json.NewEncoder(out)
	for j, p := range progs {
		if j%n != i {
			continue
		}
		rt.ResetFlows()
		shared, lines := map[string]bool{}, map[string]bool{}
		outcomes := map[string]bool{}
		res := result{Name: p.name, Bound: bound}
		x := &vsched.Explorer{Body: p.main, Bound: bound, MaxExecs: 200000, Horizon: 2000, Check: func(e *vsched.Exec) string {
			if e.Deadlock {
				res.Deadlocks++
			}
			if e.Panic != "" {
				res.Panics++
			}
			// a line is "shared" when, at the time of its access, ANOTHER goroutine has already accessed the same location in
			// this execution (an access before the object is published to another goroutine is not shared by this rule; the
			// exploration supplies the other order whenever both orders are possible)
			first := map[string]map[int]bool{}
			for _, a := range e.AccLog {
				lines[a.Site] = true
				for g := range first[a.Loc] {
					if g != a.G {
						shared[a.Site] = true
					}
				}
				if first[a.Loc] == nil {
					first[a.Loc] = map[int]bool{}
				}
				first[a.Loc][a.G] = true
			}
			outcomes[fmt.Sprint(rt.Flows())] = true
			return ""
		}}
		x.Explore()
		res.Flows = rt.Flows()
		for l := range shared {
			res.SharedLines = append(res.SharedLines, l)
		}
		for l := range lines {
			res.Lines = append(res.Lines, l)
		}
		sort.Strings(res.SharedLines)
		sort.Strings(res.Lines)
		res.Execs, res.Transitions, res.States, res.Capped, res.Outcomes = x.Execs, x.Transitions, len(x.States), x.Capped, len(outcomes)
		enc.Encode(res)
	}
}
`
	return files, len(cases)
}

type concRec struct {
	Idx        int               `json:"idx"`
	Sig        string            `json:"sig"`
	Atoms      []string          `json:"atoms"`
	Flows      []string          `json:"flows"`
	Escapes    []string          `json:"escapes"`
	LocalLines []int             `json:"local_lines"`    // lines whose every memory instruction is local in every context
	NonLocal   []int             `json:"nonlocal_lines"` // lines with at least one non-local memory instruction
	AccLines   map[string]string `json:"acc_lines"`
	Err        string            `json:"err,omitempty"`
	Panic      string            `json:"panic,omitempty"`
	LoadErr    string            `json:"load_err,omitempty"`
}

func concCmd(args []string) int {
	fs := flag.NewFlagSet("conc", flag.ExitOnError)
	_, shard, outp := commonFlags(fs)
	fs.Parse(args)
	cases := gen.ConcFamily()
	si, sn := parseShard(*shard)
	o := newOut(*outp)
	defer o.close()
	for i, c := range cases {
		if i%sn != si || i <= from {
			continue
		}
		fmt.Fprintf(os.Stderr, "BEGIN %d %s\n", i, c.Sig)
		rec := concRec{Idx: i, Sig: c.Sig, Atoms: c.Atoms, AccLines: map[string]string{}}
		for l, d := range c.AccLines {
			rec.AccLines[fmt.Sprint(l)] = d
		}
		func() {
			defer func() {
				if r := recover(); r != nil {
					rec.Panic = fmt.Sprint(r) + " @ " + drv.PanicStack()
				}
			}()
			l, err := drv.LoadInProcess(c.Src, gen.AnalysisRT)
			if err != nil {
				rec.LoadErr = err.Error()
				return
			}
			res, _ := drv.RunTaint(l, drv.Cfg{Escape: true})
			rec.Flows, rec.Escapes, rec.Err = res.Flows, res.Escapes, res.Err
			if res.Panic != "" {
				rec.Panic = res.Panic
			}
			// locality (C14), through the public interface
			l2, _ := drv.LoadInProcess(c.Src, gen.AnalysisRT)
			cfg, _ := drv.LoadConfig(drv.Cfg{Escape: true}.Yaml())
			st, err := df.NewInitializedAnalyzerState(l2.Prog, nil, config.NewLogGroup(cfg), cfg)
			if err != nil {
				rec.Err += " state: " + err.Error()
				return
			}
			if err := escape.InitializeEscapeAnalysisState(st); err != nil {
				rec.Err += " escape: " + err.Error()
				return
			}
			ea := st.EscapeAnalysisState
			lineLocal := map[int]bool{}
			lineSeen := map[int]bool{}
			var visit func(f *ssa.Function)
			seenF := map[*ssa.Function]bool{}
			visit = func(f *ssa.Function) {
				if seenF[f] || !ea.IsSummarized(f) || len(f.Blocks) == 0 {
					return
				}
				seenF[f] = true
				ctx := ea.ComputeArbitraryContext(f)
				loc, _ := ea.ComputeInstructionLocalityAndCallsites(f, ctx)
				for instr, rationale := range loc {
					ln := l2.Prog.Fset.Position(instr.Pos()).Line
					if ln == 0 {
						continue
					}
					if !lineSeen[ln] {
						lineSeen[ln] = true
						lineLocal[ln] = true
					}
					if rationale != nil {
						lineLocal[ln] = false
					}
				}
				for _, a := range f.AnonFuncs {
					visit(a)
				}
			}
			for _, mem := range l2.Main.Members {
				if f, ok := mem.(*ssa.Function); ok {
					visit(f)
				}
			}
			for ln := range lineSeen {
				if lineLocal[ln] {
					rec.LocalLines = append(rec.LocalLines, ln)
				} else {
					rec.NonLocal = append(rec.NonLocal, ln)
				}
			}
			sort.Ints(rec.LocalLines)
			sort.Ints(rec.NonLocal)
		}()
		o.emit(rec)
	}
	fmt.Fprintf(os.Stderr, "DONE\n")
	return 0
}

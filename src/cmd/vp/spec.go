package main

import (
	"flag"
	"fmt"
	"os"
	"path/filepath"
	"sort"
	"strings"

	"github.com/awslabs/ar-go-tools/analysis/config"
	"github.com/awslabs/ar-go-tools/analysis/taint"
	"github.com/awslabs/ar-go-tools/internal/zzverif/drv"
	"github.com/awslabs/ar-go-tools/internal/zzverif/gen"
)

func init() { subcmds["spec"] = specCmd }

type specRec struct {
	Idx      int                 `json:"idx"`
	Sig      string              `json:"sig"`
	Atoms    []string            `json:"atoms"`
	Missing  []string            `json:"missing"`  // "S1>3": listed in the specification, not reported
	Spurious []string            `json:"spurious"` // reported, outside the closure of the specification
	Got      map[string][]string `json:"got"`
	Expect   map[string][]string `json:"expect"`
	Listed   int                 `json:"listed"`
	Panic    string              `json:"panic,omitempty"`
	Err      string              `json:"err,omitempty"`
	LoadErr  string              `json:"load_err,omitempty"`
	Mode     string              `json:"mode"`
}

func specCmd(args []string) int {
	fs := flag.NewFlagSet("spec", flag.ExitOnError)
	_, shard, outp := commonFlags(fs)
	arity := fs.Int("arity", 2, "maximum arity")
	forms := fs.String("forms", strings.Join(gen.SpecForms, ","), "call forms")
	fs.Parse(args)
	var cases []gen.SpecCase
	if *forms == "twokeys" {
		cases = gen.TwoKeySpecCases()
	} else {
		cases = gen.EnumerateSpecs(*arity, splitList(*forms))
	}
	si, sn := parseShard(*shard)
	o := newOut(*outp)
	defer o.close()
	dir, _ := os.MkdirTemp(os.Getenv("VERIF_SCRATCH"), "vp-spec-")
	defer os.RemoveAll(dir)
	for i, c := range cases {
		if i%sn != si || i <= from {
			continue
		}
		fmt.Fprintf(os.Stderr, "BEGIN %d %s\n", i, c.Sig)
		os.WriteFile(filepath.Join(dir, "spec.json"), []byte(c.SpecJSON), 0o644)
		for _, od := range []bool{false, true} {
			rec := specRec{Idx: i, Sig: c.Sig, Atoms: c.Atoms, Expect: c.Expect, Mode: "eager"}
			if od {
				rec.Mode = "od"
			}
			func() {
				defer func() {
					if r := recover(); r != nil {
						rec.Panic = fmt.Sprint(r)
					}
				}()
				l, err := drv.LoadInProcess(c.Src, gen.AnalysisRT)
				if err != nil {
					rec.LoadErr = err.Error()
					return
				}
				y := drv.Cfg{OnDemand: od}.Yaml() + "dataflow-specs:\n  - \"spec.json\"\n"
				cfg, err := config.Load(filepath.Join(dir, "config.yaml"), []byte(y))
				if err != nil {
					rec.LoadErr = "config: " + err.Error()
					return
				}
				ar, err := taint.Analyze(cfg, l.Prog, nil)
				if err != nil {
					rec.Err = err.Error()
					if len(rec.Err) > 200 {
						rec.Err = rec.Err[:200]
					}
				}
				got := map[string]map[string]bool{}
				if ar.TaintFlows != nil {
					for snk, srcs := range ar.TaintFlows.Sinks {
						for src := range srcs {
							s, k := drv.SiteID(src.Instr), drv.SiteID(snk.Instr)
							if got[k] == nil {
								got[k] = map[string]bool{}
							}
							got[k]["S"+s] = true
						}
					}
				}
				rec.Got = map[string][]string{}
				for k, m := range got {
					for s := range m {
						rec.Got[k] = append(rec.Got[k], s)
					}
					sort.Strings(rec.Got[k])
				}
				for k, want := range c.Expect {
					for _, s := range want {
						rec.Listed++
						if !got[k][s] {
							rec.Missing = append(rec.Missing, s+">"+k)
						}
					}
				}
				for k, m := range got {
					al := map[string]bool{}
					for _, s := range c.Allowed[k] {
						al[s] = true
					}
					for _, s := range c.Expect[k] {
						al[s] = true
					}
					for s := range m {
						if !al[s] {
							rec.Spurious = append(rec.Spurious, s+">"+k)
						}
					}
				}
				sort.Strings(rec.Missing)
				sort.Strings(rec.Spurious)
			}()
			o.emit(rec)
		}
	}
	fmt.Fprintf(os.Stderr, "DONE\n")
	return 0
}

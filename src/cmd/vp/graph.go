package main

import (
	"flag"
	"fmt"
	"os"
	"sort"
	"strings"

	"github.com/awslabs/ar-go-tools/analysis"
	"github.com/awslabs/ar-go-tools/analysis/backtrace"
	"github.com/awslabs/ar-go-tools/analysis/config"
	df "github.com/awslabs/ar-go-tools/analysis/dataflow"
	"github.com/awslabs/ar-go-tools/analysis/taint"
	"github.com/awslabs/ar-go-tools/internal/zzverif/drv"
	"github.com/awslabs/ar-go-tools/internal/zzverif/gen"
	"golang.org/x/tools/go/ssa"
)

func init() { subcmds["graph"] = graphCmd }

type graphRec struct {
	Idx       int                  `json:"idx"`
	Sig       string               `json:"sig"`
	Atoms     []string             `json:"atoms"`
	Viol      []drv.GraphViolation `json:"viol"`
	Where     []string             `json:"where"` // parallel to Viol: which graph (taint-eager, taint-od, backtrace, lattice:{f,g})
	Evals     int                  `json:"evals"`
	Links     int                  `json:"links"`
	States    int                  `json:"states"`      // lattice states (subsets) visited
	Trans     int                  `json:"transitions"` // BuildSummary transitions replayed
	TopEqual  int                  `json:"top_equal"`   // 1 if the full subset's graph equals the eager graph
	Funcs     int                  `json:"funcs"`
	Panic     string               `json:"panic,omitempty"`
	LoadErr   string               `json:"load_err,omitempty"`
	LatticeOn bool                 `json:"lattice"`
}

// freshState builds the analyzer state the way taint.Analyze does, up to and including BuildGraph.
func freshState(src string, onDemand bool) (*drv.Loaded, *df.AnalyzerState, error) {
	return freshStateCfg(src, drv.Cfg{OnDemand: onDemand})
}

func freshStateCfg(src string, c drv.Cfg) (*drv.Loaded, *df.AnalyzerState, error) {
	l, err := drv.LoadInProcess(src, gen.AnalysisRT)
	if err != nil {
		return nil, nil, err
	}
	cfg, err := drv.LoadConfig(c.Yaml())
	if err != nil {
		return nil, nil, err
	}
	st, err := df.NewInitializedAnalyzerState(l.Prog, nil, config.NewLogGroup(cfg), cfg)
	if err != nil {
		return nil, nil, err
	}
	analysis.RunIntraProceduralPass(st, 1, analysis.IntraAnalysisParams{ShouldBuildSummary: df.ShouldBuildSummary, ShouldTrack: taint.IsNodeOfInterest})
	st.FlowGraph.BuildGraph()
	return l, st, nil
}

func filterCanon(canon string, keep map[string]bool) string {
	var out []string
	for _, line := range strings.Split(canon, "\n") {
		// lines start with "E fn/..." "L fn/..." "C fn/..." "S fn ..."
		rest := line
		if len(line) > 2 {
			rest = line[2:]
		}
		fn := rest
		if i := strings.IndexAny(rest, "/ "); i >= 0 {
			fn = rest[:i]
		}
		if keep[fn] {
			out = append(out, line)
		}
	}
	return strings.Join(out, "\n")
}

func graphCmd(args []string) int {
	fs := flag.NewFlagSet("graph", flag.ExitOnError)
	bounds, shard, outp := commonFlags(fs)
	fam := fs.String("family", "taint", "program family")
	maxFuncs := fs.Int("maxfuncs", 4, "explicit-state lattice only for programs with at most this many user functions")
	fs.Parse(args)
	subs := subjects(*fam, *bounds)
	si, sn := parseShard(*shard)
	o := newOut(*outp)
	defer o.close()
	for i, s := range subs {
		if i%sn != si || i <= from {
			continue
		}
		fmt.Fprintf(os.Stderr, "BEGIN %d %s\n", i, s.Sig)
		rec := graphRec{Idx: i, Sig: s.Sig, Atoms: s.Atoms}
		func() {
			defer func() {
				if r := recover(); r != nil {
					rec.Panic = fmt.Sprint(r)
				}
			}()
			note := func(where string, v []drv.GraphViolation, e, lk int) {
				rec.Evals += e
				rec.Links += lk
				for _, x := range v {
					rec.Viol = append(rec.Viol, x)
					rec.Where = append(rec.Where, where)
				}
			}
			// (a) after the real analyses
			for _, od := range []bool{false, true} {
				l, err := drv.LoadInProcess(s.Src, gen.AnalysisRT)
				if err != nil {
					rec.LoadErr = err.Error()
					return
				}
				name := "taint-eager"
				if od {
					name = "taint-od"
				}
				func() {
					defer func() { recover() }() // analyzer crashes are C07's subject
					res, raw := drv.RunTaint(l, drv.Cfg{OnDemand: od})
					if res.Panic == "" && raw != nil && raw.State != nil {
						v, e, lk := drv.CheckGraph(raw.State.FlowGraph, raw.State)
						note(name, v, e, lk)
					}
				}()
				l2, _ := drv.LoadInProcess(s.Src, gen.AnalysisRT)
				func() {
					defer func() { recover() }()
					cfg, _ := drv.LoadConfig(drv.BacktraceYaml(od))
					res, _ := backtrace.Analyze(config.NewLogGroup(cfg), cfg, l2.Prog, nil)
					v, e, lk := drv.CheckGraph(&res.Graph, nil)
					note(strings.Replace(name, "taint", "backtrace", 1), v, e, lk)
				}()
			}
			// (b) explicit-state: the lattice of built-summary subsets, all orders
			l0, st0, err := freshState(s.Src, true)
			if err != nil {
				rec.LoadErr = err.Error()
				return
			}
			funcs := drv.UserFunctions(l0, st0.FlowGraph)
			rec.Funcs = len(funcs)
			if len(funcs) == 0 || len(funcs) > *maxFuncs {
				return
			}
			rec.LatticeOn = true
			names := make([]string, len(funcs))
			keep := map[string]bool{}
			for k, f := range funcs {
				names[k] = f.String()
				keep[f.String()] = true
			}
			_, stE, err := freshState(s.Src, false)
			if err != nil {
				return
			}
			eager := filterCanon(drv.CanonGraph(stE.FlowGraph), keep)
			canonOf := map[string]string{}
			firstPath := map[string]string{}
			perm := make([]int, 0, len(funcs))
			used := make([]bool, len(funcs))
			var rec2 func()
			rec2 = func() {
				if len(perm) == len(funcs) {
					// replay this order on a fresh state, checking every prefix
					l, st, err := freshState(s.Src, true)
					if err != nil {
						return
					}
					byName := map[string]*ssa.Function{}
					for _, f := range drv.UserFunctions(l, st.FlowGraph) {
						byName[f.String()] = f
					}
					var built []string
					for _, k := range perm {
						df.BuildSummary(st, byName[names[k]])
						st.FlowGraph.Sync()
						rec.Trans++
						built = append(built, names[k])
						sorted := append([]string(nil), built...)
						sort.Strings(sorted)
						key := strings.Join(sorted, ",")
						v, e, lk := drv.CheckGraph(st.FlowGraph, st)
						note("lattice:{"+key+"} via "+strings.Join(built, ">"), v, e, lk)
						c := filterCanon(drv.CanonGraph(st.FlowGraph), keep)
						if prev, ok := canonOf[key]; !ok {
							canonOf[key] = c
							firstPath[key] = strings.Join(built, ">")
							rec.States++
						} else if prev != c {
							rec.Viol = append(rec.Viol, drv.GraphViolation{Kind: "order-dependent-state",
								Msg: fmt.Sprintf("graph after building {%s} differs between order %s and order %s: %s", key, firstPath[key],
									strings.Join(built, ">"), firstDiff(prev, c))})
							rec.Where = append(rec.Where, "lattice:{"+key+"}")
						}
						if len(built) == len(funcs) && rec.TopEqual == 0 {
							if c == eager {
								rec.TopEqual = 1
							} else {
								rec.TopEqual = -1
								rec.Viol = append(rec.Viol, drv.GraphViolation{Kind: "top-differs-from-eager",
									Msg: "on-demand graph with every user function built differs from the eager graph: " + firstDiff(eager, c)})
								rec.Where = append(rec.Where, "lattice:top")
							}
						}
					}
					return
				}
				for k := range funcs {
					if !used[k] {
						used[k] = true
						perm = append(perm, k)
						rec2()
						perm = perm[:len(perm)-1]
						used[k] = false
					}
				}
			}
			rec2()
		}()
		if len(rec.Viol) > 12 {
			rec.Viol = rec.Viol[:12]
			rec.Where = rec.Where[:12]
		}
		o.emit(rec)
	}
	fmt.Fprintf(os.Stderr, "DONE\n")
	return 0
}

func firstDiff(a, b string) string {
	as, bs := strings.Split(a, "\n"), strings.Split(b, "\n")
	am, bm := map[string]bool{}, map[string]bool{}
	for _, x := range as {
		am[x] = true
	}
	for _, x := range bs {
		bm[x] = true
	}
	var onlyA, onlyB []string
	for _, x := range as {
		if !bm[x] {
			onlyA = append(onlyA, x)
		}
	}
	for _, x := range bs {
		if !am[x] {
			onlyB = append(onlyB, x)
		}
	}
	s := fmt.Sprintf("only in first: %v ; only in second: %v", onlyA, onlyB)
	if len(s) > 600 {
		s = s[:600]
	}
	return s
}

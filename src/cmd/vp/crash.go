package main

import (
	"encoding/json"
	"flag"
	"fmt"
	"os"
	"strings"
	"time"

	"github.com/awslabs/ar-go-tools/internal/zzverif/drv"
	"github.com/awslabs/ar-go-tools/internal/zzverif/gen"
)

func init() { subcmds["crash"] = crashCmd }

// subjects returns a family as generic subjects.
func subjects(name, bounds string) []gen.Subject {
	switch name {
	case "shapes2":
		return append(gen.Snippets(), gen.CallGraphShapes(2, 1)...)
	case "shapes3":
		return append(gen.Snippets(), append(gen.CallGraphShapes(2, 3), gen.CallGraphShapes(3, 1)...)...)
	case "shapes3e5":
		// as shapes3, call graphs with at most 5 edges (backtrace needs minutes on denser recursive graphs: finding
		// C07-backtrace-exponential-on-dense-recursion; three dense graphs are kept as witnesses)
		out := gen.Snippets()
		dense := 0
		for _, s := range append(gen.CallGraphShapes(2, 3), gen.CallGraphShapes(3, 1)...) {
			n := 0
			for _, a := range s.Atoms {
				if strings.HasPrefix(a, "edges:") {
					fmt.Sscanf(a, "edges:%d", &n)
				}
			}
			if n <= 5 {
				out = append(out, s)
			} else if n == 7 && dense < 3 && !strings.Contains(s.Sig, "-closure") && !strings.Contains(s.Sig, "-iface") && !strings.Contains(s.Sig, "-fparam") && !strings.Contains(s.Sig, "-mvalue") {
				out = append(out, s)
				dense++
			}
		}
		return out
	case "snippets":
		return gen.Snippets()
	case "alias":
		var d int
		fmt.Sscanf(bounds, "d%d", &d)
		var out []gen.Subject
		for _, p := range gen.AliasFamily(d) {
			out = append(out, gen.Subject{Sig: p.Sig(), Atoms: p.Atoms(), Src: p.Src()})
		}
		return out
	case "gopanic":
		var out []gen.Subject
		for _, c := range gen.GoPanicFamily() {
			out = append(out, c.Subject)
		}
		return out
	case "dispatch":
		if bounds == "d2+core3" {
			return gen.DispatchFamilyCore3()
		}
		var d int
		fmt.Sscanf(bounds, "d%d", &d)
		return gen.DispatchFamily(d)
	case "cg2d1":
		return gen.CallGraphShapes(2, 1)
	case "cg2d2":
		return gen.CallGraphShapes(2, 2)
	}
	var out []gen.Subject
	for i, p := range family(name, bounds) {
		out = append(out, gen.Subject{Sig: p.Sig(), Atoms: p.Atoms(), Src: drv.MainSource(p, gen.Prefix(i))})
	}
	return out
}

type crashRec struct {
	Idx      int           `json:"idx"`
	Sig      string        `json:"sig"`
	Atoms    []string      `json:"atoms"`
	Outcomes []drv.Outcome `json:"outcomes"`
	LoadErr  string        `json:"load_err,omitempty"`
}

func crashCmd(args []string) int {
	fs := flag.NewFlagSet("crash", flag.ExitOnError)
	bounds, shard, outp := commonFlags(fs)
	fam := fs.String("family", "shapes2", "program family")
	budget := fs.Int("budget", 60, "per-analysis wall budget in seconds (divergence watchdog)")
	fs.Parse(args)
	subs := subjects(*fam, *bounds)
	si, sn := parseShard(*shard)
	o := newOut(*outp)
	defer o.close()
	for i, s := range subs {
		if i%sn != si || i <= from {
			continue
		}
		fmt.Fprintf(os.Stderr, "BEGIN %d %s\n", i, s.Sig)
		ab, _ := json.Marshal(s.Atoms)
		fmt.Fprintf(os.Stderr, "ATOMS %s\n", ab)
		rec := crashRec{Idx: i, Sig: s.Sig, Atoms: s.Atoms}
		var done chan bool
		outs, err := drv.RunAll(func() (*drv.Loaded, error) { return drv.LoadInProcess(s.Src, gen.AnalysisRT) },
			func(name string) {
				done = make(chan bool)
				go func(d chan bool) {
					select {
					case <-d:
					case <-time.After(time.Duration(*budget) * time.Second):
						fmt.Fprintf(os.Stderr, "TIMEOUT %d %s\n", i, name)
						os.Exit(3)
					}
				}(done)
			},
			func() { close(done) })
		if err != nil {
			rec.LoadErr = err.Error()
		}
		rec.Outcomes = outs
		o.emit(rec)
	}
	fmt.Fprintf(os.Stderr, "DONE\n")
	return 0
}

func init() { subcmds["dump-subjects"] = dumpSubjectsCmd }

// dumpSubjectsCmd writes a family as JSON lines {sig, atoms, src} (input of the schedule worker vps).
func dumpSubjectsCmd(args []string) int {
	fs := flag.NewFlagSet("dump-subjects", flag.ExitOnError)
	bounds, _, outp := commonFlags(fs)
	fam := fs.String("family", "snippets", "program family")
	pick := fs.String("pick", "", "comma-separated signatures to keep (default: all)")
	fs.Parse(args)
	keep := map[string]bool{}
	for _, p := range strings.Split(*pick, ";") {
		if p != "" {
			keep[p] = true
		}
	}
	o := newOut(*outp)
	defer o.close()
	for _, s := range subjects(*fam, *bounds) {
		if len(keep) > 0 && !keep[s.Sig] {
			continue
		}
		o.emit(map[string]any{"sig": s.Sig, "atoms": s.Atoms, "src": s.Src})
	}
	return 0
}

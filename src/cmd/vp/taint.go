package main

import (
	"crypto/sha256"
	"encoding/hex"
	"flag"
	"fmt"
	"os"
	"path/filepath"
	"sort"
	"strings"

	"github.com/awslabs/ar-go-tools/internal/zzverif/drv"
	"github.com/awslabs/ar-go-tools/internal/zzverif/gen"
)

func init() {
	subcmds["gen-native"] = genNative
	subcmds["taint"] = taintCmd
	subcmds["show"] = showCmd
}

// family returns the program list of a family for the given bounds.
func family(name, bounds string) []*gen.Prog {
	switch name {
	case "taint":
		return gen.Enumerate(gen.ParseBounds(bounds), nil)
	case "guard":
		return gen.EnumerateGuards(gen.ParseBounds(bounds))
	}
	panic("unknown family " + name)
}

// nativeFiles renders the native module of a family: file name -> content, and the number of entries.
func nativeFiles(fam, bounds string, chunk int) (map[string]string, int) {
	files := map[string]string{}
	files["go.mod"] = "module zsubj\n\ngo 1.22\n"
	files["rt/rt.go"] = gen.NativeRT
	var pkgNames []string
	n := 0
	if fam == "conc" {
		return concNativeFiles(bounds)
	}
	if fam == "std" {
		sf, cnt, err := stdNativeFiles()
		if err != nil {
			fmt.Fprintln(os.Stderr, "LOADERR", err)
			os.Exit(2)
		}
		for k, v := range sf {
			files[k] = v
		}
		pkgNames = append(pkgNames, "s0")
		n = cnt
	} else if fam == "alias" {
		var d int
		fmt.Sscanf(bounds, "d%d", &d)
		progs := gen.AliasFamily(d)
		n = len(progs)
		for first := 0; first < len(progs); first += chunk {
			last := first + chunk
			if last > len(progs) {
				last = len(progs)
			}
			name := fmt.Sprintf("al%d", len(pkgNames))
			pkgNames = append(pkgNames, name)
			var sb, reg strings.Builder
			fmt.Fprintf(&sb, "package %s\n\nimport \"zsubj/rt\"\n\nvar _ = rt.Cond\n\n", name)
			reg.WriteString("var Progs = []rt.Entry{\n")
			for i := first; i < last; i++ {
				pre := gen.Prefix(i)
				fmt.Fprintf(&sb, "// %s\n%s\n", progs[i].Sig(), progs[i].Body(pre))
				fmt.Fprintf(&reg, "\t{Name: %q, Main: %smain, Reset: %sreset},\n", fmt.Sprint(i), pre, pre)
			}
			reg.WriteString("}\n")
			files[name+"/p.go"] = sb.String() + reg.String()
		}
	} else if fam == "dispatch" || fam == "gopanic" {
		subs := subjects(fam, bounds)
		n = len(subs)
		// every dispatch program declares its own types and init functions: one native package per program
		for i, sub := range subs {
			name := fmt.Sprintf("q%d", i)
			pkgNames = append(pkgNames, name)
			src := strings.Replace(sub.Src, "package main", "package "+name, 1)
			src = strings.Replace(src, "func main() {", "func Main() {", 1)
			src += fmt.Sprintf("func noreset() {}\nvar Progs = []rt.Entry{{Name: \"%d\", Main: Main, Reset: noreset}}\n", i)
			files[name+"/p.go"] = src
		}
	} else if fam == "defers" {
		funcs := deferFuncs(bounds)
		n = len(funcs)
		for first := 0; first < len(funcs); first += 1500 {
			last := first + 1500
			if last > len(funcs) {
				last = len(funcs)
			}
			name := fmt.Sprintf("d%d", len(pkgNames))
			pkgNames = append(pkgNames, name)
			files[name+"/funcs.go"] = gen.DeferPackage(name, funcs[first:last], first, true)
		}
	} else {
		progs := family(fam, bounds)
		n = len(progs)
		type pk struct {
			name   string
			shared []string
			idx    []int
		}
		var pks []*pk
		cur := map[string]*pk{}
		for i, p := range progs {
			g := p.Group()
			k := cur[g]
			if k == nil || len(k.idx) >= chunk {
				_, sh := p.Render("X_")
				k = &pk{name: fmt.Sprintf("g%d", len(pks)), shared: sh}
				pks = append(pks, k)
				cur[g] = k
			}
			k.idx = append(k.idx, i)
		}
		for _, k := range pks {
			pkgNames = append(pkgNames, k.name)
			var sb strings.Builder
			fmt.Fprintf(&sb, "package %s\n\nimport \"zsubj/rt\"\n\n", k.name)
			sb.WriteString(gen.SharedText(k.shared))
			var reg strings.Builder
			reg.WriteString("var Progs = []rt.Entry{\n")
			for _, i := range k.idx {
				pre := gen.Prefix(i)
				body, _ := progs[i].Render(pre)
				fmt.Fprintf(&sb, "// %s\n%s\n", progs[i].Sig(), body)
				fmt.Fprintf(&reg, "\t{Name: %q, Main: %smain, Reset: %sreset},\n", fmt.Sprint(i), pre, pre)
			}
			reg.WriteString("}\n")
			sb.WriteString(reg.String())
			files[k.name+"/progs.go"] = sb.String()
		}
	}
	var mainSb strings.Builder
	mainSb.WriteString("package main\n\nimport (\n\t\"encoding/json\"\n\t\"fmt\"\n\t\"os\"\n\t\"zsubj/rt\"\n")
	for _, k := range pkgNames {
		fmt.Fprintf(&mainSb, "\t\"zsubj/%s\"\n", k)
	}
	mainSb.WriteString(")\n\nfunc main() {\n\tvar all []rt.Entry\n")
	for _, k := range pkgNames {
		fmt.Fprintf(&mainSb, "\tall = append(all, %s.Progs...)\n", k)
	}
	mainSb.WriteString(`	var i, n, h int
	fmt.Sscanf(os.Args[1], "%d/%d", &i, &n)
	fmt.Sscanf(os.Args[2], "%d", &h)
	rt.Horizon = h
	if len(os.Args) > 3 && os.Args[3] == "single" {
		// C19: run exactly one program in this process (it may be killed by a goroutine panic); os.Args[4] = index, [5] = valuation bits
		var k int
		fmt.Sscanf(os.Args[4], "%d", &k)
		bits := []bool{}
		if len(os.Args) > 5 {
			for _, c := range os.Args[5] {
				bits = append(bits, c == '1')
			}
		}
		rt.RunSingle(all[k], bits)
		fmt.Println("SURVIVED")
		return
	}
	rt.WantLogs = len(os.Args) > 3 && os.Args[3] == "logs"
	if len(os.Args) > 3 && os.Args[3] == "timeout" {
		rt.TimeoutMs = 2000
	}
	out := os.Stdout
	if devnull, err := os.OpenFile(os.DevNull, os.O_WRONLY, 0); err == nil {
		os.Stdout = devnull // subject code (std calls) may print
	}
	enc := json.NewEncoder(out)
	for j, e := range all {
		if j%n != i {
			continue
		}
		enc.Encode(rt.Explore(e))
	}
}
`)
	files["main.go"] = mainSb.String()
	return files, n
}

// genNative writes the native module (rt, packed program packages, main) and prints the content hash.
func genNative(args []string) int {
	fs := flag.NewFlagSet("gen-native", flag.ExitOnError)
	bounds, _, outp := commonFlags(fs)
	fam := fs.String("family", "taint", "program family")
	chunk := fs.Int("chunk", 400, "programs per native package")
	hashOnly := fs.Bool("hash", false, "print the content hash only")
	fs.StringVar(&entriesFile, "entries", "", "std family: entries file written by `vp stdtab`")
	fs.Parse(args)
	files, nprogs := nativeFiles(*fam, *bounds, *chunk)
	h := sha256.New()
	var names []string
	for n := range files {
		names = append(names, n)
	}
	sort.Strings(names)
	for _, n := range names {
		h.Write([]byte(n))
		h.Write([]byte(files[n]))
	}
	hash := hex.EncodeToString(h.Sum(nil))[:16]
	if *hashOnly {
		fmt.Println(hash, nprogs)
		return 0
	}
	dir := *outp
	for _, n := range names {
		p := filepath.Join(dir, n)
		os.MkdirAll(filepath.Dir(p), 0o755)
		if err := os.WriteFile(p, []byte(files[n]), 0o644); err != nil {
			fmt.Fprintln(os.Stderr, err)
			return 2
		}
	}
	fmt.Println(hash, nprogs)
	return 0
}

// CfgSet names the configuration vectors of a check.
func cfgSet(name string) []drv.Cfg {
	switch name {
	case "c01":
		var out []drv.Cfg
		for _, fsens := range []bool{false, true} {
			for _, od := range []bool{false, true} {
				for _, pf := range []string{"", "main", "nomatch"} {
					out = append(out, drv.Cfg{FieldSensitive: fsens, OnDemand: od, PkgFilter: pf})
				}
			}
		}
		return out
	case "c01q":
		return []drv.Cfg{{}, {FieldSensitive: true}, {OnDemand: true}, {FieldSensitive: true, OnDemand: true}, {PkgFilter: "main"}, {PkgFilter: "nomatch"}}
	case "default":
		return []drv.Cfg{{}}
	case "c02":
		return []drv.Cfg{{Sanitizers: true, Validators: true}, {Sanitizers: true, Validators: true, FieldSensitive: true},
			{Sanitizers: true, Validators: true, OnDemand: true}, {Sanitizers: true, Validators: true, FieldSensitive: true, OnDemand: true}}
	}
	panic("unknown cfg set " + name)
}

type taintRec struct {
	Idx     int               `json:"idx"`
	Sig     string            `json:"sig"`
	Atoms   []string          `json:"atoms"`
	Results []drv.TaintResult `json:"results"`
	LoadErr string            `json:"load_err,omitempty"`
}

func taintCmd(args []string) int {
	fs := flag.NewFlagSet("taint", flag.ExitOnError)
	bounds, shard, outp := commonFlags(fs)
	fam := fs.String("family", "taint", "program family")
	cfgs := fs.String("cfgs", "c01q", "configuration set")
	fs.Parse(args)
	progs := family(*fam, *bounds)
	si, sn := parseShard(*shard)
	o := newOut(*outp)
	defer o.close()
	cs := cfgSet(*cfgs)
	for i, p := range progs {
		if i%sn != si || i <= from {
			continue
		}
		fmt.Fprintf(os.Stderr, "BEGIN %d %s\n", i, p.Sig())
		rec := taintRec{Idx: i, Sig: p.Sig(), Atoms: p.Atoms()}
		src := drv.MainSource(p, gen.Prefix(i))
		for _, c := range cs {
			// a fresh load per configuration: the analyzer mutates shared SSA-side state
			l, err := drv.LoadInProcess(src, gen.AnalysisRT)
			if err != nil {
				rec.LoadErr = err.Error()
				break
			}
			r, _ := drv.RunTaint(l, c)
			rec.Results = append(rec.Results, r)
		}
		o.emit(rec)
	}
	fmt.Fprintf(os.Stderr, "DONE\n")
	return 0
}

func showCmd(args []string) int {
	fs := flag.NewFlagSet("show", flag.ExitOnError)
	sig := fs.String("sig", "", "program signature")
	fs.Parse(args)
	p, err := gen.ParseSig(*sig)
	if err != nil {
		fmt.Fprintln(os.Stderr, err)
		return 2
	}
	fmt.Print(drv.MainSource(p, "P0_"))
	return 0
}

func init() { subcmds["emit"] = emitCmd }

// emitCmd writes a subject program as a real module directory for the tool path (argot CLI).
func emitCmd(args []string) int {
	fs := flag.NewFlagSet("emit", flag.ExitOnError)
	sig := fs.String("sig", "", "program signature")
	dir := fs.String("dir", "", "output directory")
	cfgs := fs.String("cfgs", "default", "configuration set")
	ci := fs.Int("cfg", 0, "configuration index")
	fs.Parse(args)
	p, err := gen.ParseSig(*sig)
	if err != nil {
		fmt.Fprintln(os.Stderr, err)
		return 2
	}
	files := map[string]string{
		"go.mod":       "module zsubj\n\ngo 1.22\n",
		"main/main.go": drv.MainSource(p, "P0_"),
		"rt/rt.go":     gen.AnalysisRT,
		"config.yaml":  cfgSet(*cfgs)[*ci].Yaml(),
	}
	for n, c := range files {
		pth := filepath.Join(*dir, n)
		os.MkdirAll(filepath.Dir(pth), 0o755)
		if err := os.WriteFile(pth, []byte(c), 0o644); err != nil {
			fmt.Fprintln(os.Stderr, err)
			return 2
		}
	}
	return 0
}

func init() { subcmds["taint-one"] = taintOneCmd }

// taintOneCmd analyses one program (given by its signature) under every configuration of a set and prints the results:
// the replay of a single taint-family case without the explorer.
func taintOneCmd(args []string) int {
	fs := flag.NewFlagSet("taint-one", flag.ExitOnError)
	sig := fs.String("sig", "", "program signature")
	cfgs := fs.String("cfgs", "c01", "configuration set")
	only := fs.String("cfg", "", "only the configuration with this name")
	file := fs.String("file", "", "analyse this main-package source file instead of a generated program")
	fs.Parse(args)
	var src string
	if *file != "" {
		b, err := os.ReadFile(*file)
		if err != nil {
			fmt.Fprintln(os.Stderr, err)
			return 2
		}
		src = string(b)
	} else {
		p, err := gen.ParseSig(*sig)
		if err != nil {
			fmt.Fprintln(os.Stderr, err)
			return 2
		}
		src = drv.MainSource(p, "P0_")
	}
	for _, c := range cfgSet(*cfgs) {
		l, err := drv.LoadInProcess(src, gen.AnalysisRT)
		if err != nil {
			fmt.Fprintln(os.Stderr, "LOADERR", err)
			return 2
		}
		r, _ := drv.RunTaint(l, c)
		if *only != "" && !strings.Contains(c.String(), *only) {
			continue
		}
		fmt.Printf("cfg[%s] flows=%v panic=%q err=%q\n", c.String(), r.Flows, r.Panic, r.Err)
		if r.Panic != "" && os.Getenv("VP_STACK") != "" {
			fmt.Println(r.Stack)
		}
	}
	return 0
}

package main

import (
	"flag"
	"fmt"
	"os"
	"path/filepath"
	"sort"
	"strings"

	"github.com/awslabs/ar-go-tools/analysis/config"
	"github.com/awslabs/ar-go-tools/analysis/taint"
	"github.com/awslabs/ar-go-tools/internal/analysistest"
	"github.com/awslabs/ar-go-tools/internal/zzverif/drv"
	"github.com/awslabs/ar-go-tools/internal/zzverif/gen"
	"golang.org/x/tools/go/ssa"
	"gopkg.in/yaml.v3"
)

func init() {
	subcmds["opts"] = optsCmd
	subcmds["corpus-opts"] = corpusOptsCmd
}

// OptVec is one option vector of C05: overrides applied to the "options:" map of a configuration.
type OptVec struct {
	Name string
	Set  map[string]any
}

func optVectors(tier string) []OptVec {
	v := []OptVec{{Name: "default", Set: map[string]any{}}}
	single := []OptVec{
		{"od", map[string]any{"summarize-on-demand": true}},
		{"pf=main", map[string]any{"pkg-filter": "zsubj/.*|command-line-arguments|main"}},
		{"pf=nomatch", map[string]any{"pkg-filter": "qqnomatch"}},
		{"pf=std", map[string]any{"pkg-filter": "^(fmt|strings|os|io)$"}},
		{"paths", map[string]any{"report-paths": true}},
		{"coverage", map[string]any{"report-coverage": true}},
		{"nocallee", map[string]any{"report-no-callee-sites": true}},
		{"log3", map[string]any{"log-level": 3}},
		{"log5", map[string]any{"log-level": 5}},
		{"ma1", map[string]any{"max-alarms": 1}},
		{"ma2", map[string]any{"max-alarms": 2}},
		{"ma3", map[string]any{"max-alarms": 3}},
	}
	v = append(v, single...)
	// all pairs involving on-demand
	for _, s := range single[1:] {
		m := map[string]any{"summarize-on-demand": true}
		for k, x := range s.Set {
			m[k] = x
		}
		v = append(v, OptVec{"od+" + s.Name, m})
	}
	if tier == "thorough" {
		// remaining pairs of distinct keys
		for i := 1; i < len(single); i++ {
			for j := i + 1; j < len(single); j++ {
				m := map[string]any{}
				clash := false
				for k, x := range single[i].Set {
					m[k] = x
				}
				for k, x := range single[j].Set {
					if _, ok := m[k]; ok {
						clash = true
					}
					m[k] = x
				}
				if !clash {
					v = append(v, OptVec{single[i].Name + "+" + single[j].Name, m})
				}
			}
		}
		v = append(v, OptVec{"all-reports+od+log5", map[string]any{"summarize-on-demand": true, "report-paths": true,
			"report-coverage": true, "report-no-callee-sites": true, "log-level": 5}})
	}
	return v
}

// applyOpts merges the option overrides into a yaml configuration text.
func applyOpts(yamlText string, ov OptVec, reportsDir string) (string, error) {
	var doc map[string]any
	if err := yaml.Unmarshal([]byte(yamlText), &doc); err != nil {
		return "", err
	}
	opts, _ := doc["options"].(map[string]any)
	if opts == nil {
		opts = map[string]any{}
	}
	for k, x := range ov.Set {
		opts[k] = x
	}
	opts["reports-dir"] = reportsDir
	if _, ok := opts["log-level"]; !ok {
		opts["log-level"] = 1
	}
	doc["options"] = opts
	b, err := yaml.Marshal(doc)
	return string(b), err
}

type optRec struct {
	Idx     int                 `json:"idx"`
	Sig     string              `json:"sig"`
	Atoms   []string            `json:"atoms"`
	Vecs    []string            `json:"vecs"`
	Flows   [][]string          `json:"flows"`
	Errs    []string            `json:"errs"`
	Panics  []string            `json:"panics"`
	LoadErr string              `json:"load_err,omitempty"`
	Extra   map[string][]string `json:"extra,omitempty"`
}

func flowsByPos(prog *ssa.Program, ar *taint.AnalysisResult) []string {
	set := map[string]bool{}
	if ar == nil || ar.TaintFlows == nil {
		return nil
	}
	pos := func(i ssa.Instruction) string {
		p := prog.Fset.Position(i.Pos())
		return fmt.Sprintf("%s:%d", filepath.Base(p.Filename), p.Line)
	}
	for snk, srcs := range ar.TaintFlows.Sinks {
		for src := range srcs {
			set[pos(src.Instr)+">"+pos(snk.Instr)] = true
		}
	}
	var out []string
	for k := range set {
		out = append(out, k)
	}
	sort.Strings(out)
	return out
}

func optsCmd(args []string) int {
	fs := flag.NewFlagSet("opts", flag.ExitOnError)
	bounds, shard, outp := commonFlags(fs)
	fam := fs.String("family", "taint", "program family")
	tier := fs.String("tier", "quick", "tier")
	fs.Parse(args)
	progs := family(*fam, *bounds)
	si, sn := parseShard(*shard)
	o := newOut(*outp)
	defer o.close()
	vecs := optVectors(*tier)
	rdir, _ := os.MkdirTemp(os.Getenv("VERIF_SCRATCH"), "vp-reports-")
	defer os.RemoveAll(rdir)
	base := drv.Cfg{}.Yaml()
	for i, p := range progs {
		if i%sn != si || i <= from {
			continue
		}
		fmt.Fprintf(os.Stderr, "BEGIN %d %s\n", i, p.Sig())
		rec := optRec{Idx: i, Sig: p.Sig(), Atoms: p.Atoms()}
		src := drv.MainSource(p, gen.Prefix(i))
		for _, ov := range vecs {
			l, err := drv.LoadInProcess(src, gen.AnalysisRT)
			if err != nil {
				rec.LoadErr = err.Error()
				break
			}
			y, err := applyOpts(base, ov, rdir)
			if err != nil {
				rec.LoadErr = err.Error()
				break
			}
			r, _ := drv.RunTaintYaml(l, y)
			rec.Vecs = append(rec.Vecs, ov.Name)
			rec.Flows = append(rec.Flows, r.Flows)
			rec.Errs = append(rec.Errs, r.Err)
			rec.Panics = append(rec.Panics, r.Panic)
			cleanDir(rdir)
		}
		o.emit(rec)
	}
	fmt.Fprintf(os.Stderr, "DONE\n")
	return 0
}

func cleanDir(d string) {
	es, _ := os.ReadDir(d)
	for _, e := range es {
		os.RemoveAll(filepath.Join(d, e.Name()))
	}
}

// corpusDirs lists the repository's own taint testdata programs (directories with main.go and config.yaml).
func corpusDirs(root string) []string {
	es, _ := os.ReadDir(root)
	var out []string
	for _, e := range es {
		if !e.IsDir() {
			continue
		}
		if _, err := os.Stat(filepath.Join(root, e.Name(), "main.go")); err != nil {
			continue
		}
		if _, err := os.Stat(filepath.Join(root, e.Name(), "config.yaml")); err != nil {
			continue
		}
		out = append(out, e.Name())
	}
	sort.Strings(out)
	return out
}

func corpusOptsCmd(args []string) int {
	fs := flag.NewFlagSet("corpus-opts", flag.ExitOnError)
	_, shard, outp := commonFlags(fs)
	tier := fs.String("tier", "quick", "tier")
	root := fs.String("root", "/repo/analysis/taint/testdata", "corpus root")
	only := fs.String("vecs", "", "comma-separated vector names (default: all)")
	fresh := fs.Bool("fresh", false, "load the program afresh for every vector")
	onlyDir := fs.String("dirs", "", "restrict to these corpus directories (comma-separated)")
	fs.Parse(args)
	si, sn := parseShard(*shard)
	o := newOut(*outp)
	defer o.close()
	vecs := optVectors(*tier)
	if *only != "" {
		keep := map[string]bool{}
		for _, n := range strings.Split(*only, ",") {
			keep[n] = true
		}
		var f []OptVec
		for _, v := range vecs {
			if keep[v.Name] {
				f = append(f, v)
			}
		}
		vecs = f
	}
	rdir, _ := os.MkdirTemp(os.Getenv("VERIF_SCRATCH"), "vp-reports-")
	defer os.RemoveAll(rdir)
	dirs := corpusDirs(*root)
	if *onlyDir != "" {
		dirs = strings.Split(*onlyDir, ",")
	}
	// mimic the repository's own tests: cwd = parent of testdata, dir = testdata/<name>
	if err := os.Chdir(filepath.Dir(*root)); err != nil {
		fmt.Fprintln(os.Stderr, err)
		return 2
	}
	tdName := filepath.Base(*root)
	// one unit of work = one program: loading (go/packages, ~2.5 s) dominates, so the program is loaded once and analysed
	// under every vector; with -fresh every vector gets its own load (used to confirm candidate differences).
	for di, d := range dirs {
		if di%sn != si || di <= from {
			continue
		}
		ytext, err := os.ReadFile(filepath.Join(*root, d, "config.yaml"))
		if err != nil {
			continue
		}
		fmt.Fprintf(os.Stderr, "BEGIN %d %s\n", di, d)
		var lp analysistest.LoadedTestProgram
		loaded := false
		for _, ov := range vecs {
			rec := optRec{Idx: di, Sig: d, Atoms: []string{d}, Vecs: []string{ov.Name}}
			func() {
				defer func() {
					if r := recover(); r != nil {
						rec.Panics = []string{fmt.Sprint(r)}
						rec.Flows = [][]string{nil}
						rec.Errs = []string{""}
					}
				}()
				if !loaded || *fresh {
					var err error
					lp, err = analysistest.LoadTest(os.DirFS(".").(analysistest.ReadFileDirFS), filepath.Join(tdName, d), []string{},
						analysistest.LoadTestOptions{ApplyRewrite: true})
					if err != nil {
						rec.LoadErr = err.Error()
						return
					}
					loaded = true
				}
				y, err := applyOpts(string(ytext), ov, rdir)
				if err != nil {
					rec.LoadErr = err.Error()
					return
				}
				cfg, err := config.Load(filepath.Join(*root, d, "config.yaml"), []byte(y))
				if err != nil {
					rec.LoadErr = "config: " + err.Error()
					return
				}
				ar, err := taint.Analyze(cfg, lp.Prog, lp.Pkgs)
				e := ""
				if err != nil {
					e = err.Error()
					if len(e) > 300 {
						e = e[:300]
					}
				}
				rec.Flows = [][]string{flowsByPos(lp.Prog, &ar)}
				rec.Errs = []string{e}
				rec.Panics = []string{""}
			}()
			cleanDir(rdir)
			o.emit(rec)
		}
	}
	fmt.Fprintf(os.Stderr, "DONE\n")
	return 0
}

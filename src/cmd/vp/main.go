// Command vp is the worker binary of the verification framework. It is compiled inside the repository's module
// (overlay-mapped to internal/zzverif/cmd/vp) from /repo's current working tree.
package main

import (
	"bufio"
	"encoding/json"
	"flag"
	"fmt"
	"os"
	"strings"
)

type subcmd func(args []string) int

var subcmds = map[string]subcmd{}

func main() {
	if len(os.Args) < 2 {
		fmt.Fprintln(os.Stderr, "usage: vp <subcommand> ...")
		os.Exit(2)
	}
	f, ok := subcmds[os.Args[1]]
	if !ok {
		fmt.Fprintln(os.Stderr, "unknown subcommand", os.Args[1])
		os.Exit(2)
	}
	os.Exit(f(os.Args[2:]))
}

// out is the JSONL result stream (a file, so that analyzer chatter on stdout cannot corrupt it).
type out struct {
	f *os.File
	w *bufio.Writer
}

func newOut(path string) *out {
	f, err := os.Create(path)
	if err != nil {
		fmt.Fprintln(os.Stderr, err)
		os.Exit(2)
	}
	return &out{f: f, w: bufio.NewWriter(f)}
}

func (o *out) emit(v any) {
	b, err := json.Marshal(v)
	if err != nil {
		panic(err)
	}
	o.w.Write(b)
	o.w.WriteByte('\n')
	o.w.Flush()
}

func (o *out) close() { o.w.Flush(); o.f.Close() }

func parseShard(s string) (int, int) {
	var i, n int
	if _, err := fmt.Sscanf(s, "%d/%d", &i, &n); err != nil || n <= 0 {
		return 0, 1
	}
	return i, n
}

// from is the index after which a restarted shard resumes (cases with idx <= from are skipped).
var from = -1

func commonFlags(fs *flag.FlagSet) (bounds, shard, outp *string) {
	fs.IntVar(&from, "from", -1, "skip cases with index <= from (resume after a worker death)")
	bounds = fs.String("bounds", "k1d0", "program-space bounds, e.g. k2d0+k1d1")
	shard = fs.String("shard", "0/1", "i/n")
	outp = fs.String("out", "", "output path")
	return
}

func splitList(s string) []string {
	if s == "" {
		return nil
	}
	return strings.Split(s, ",")
}

package main

import (
	"fmt"
	"os"
	"path/filepath"
	"sort"
	"strings"

	"github.com/awslabs/ar-go-tools/analysis"
	"github.com/awslabs/ar-go-tools/analysis/config"
	df "github.com/awslabs/ar-go-tools/analysis/dataflow"
	"github.com/awslabs/ar-go-tools/internal/zzverif/drv"
	"golang.org/x/tools/go/ssa"
	"golang.org/x/tools/go/ssa/ssautil"
)

func stdShouldTrack(*df.AnalyzerState, ssa.Node) bool { return false }

// loadStd loads a throw-away program importing pkgs through the tool's own loader and returns an initialized analyzer
// state plus every function (with a body) of those packages, sorted by name.
func loadStd(pkgs []string) (*df.AnalyzerState, []*ssa.Function, error) {
	dir, err := os.MkdirTemp(os.Getenv("VERIF_SCRATCH"), "vp-std-")
	if err != nil {
		return nil, nil, err
	}
	defer os.RemoveAll(dir)
	var sb strings.Builder
	sb.WriteString("package main\n\nimport (\n")
	for _, p := range pkgs {
		fmt.Fprintf(&sb, "\t_ %q\n", p)
	}
	sb.WriteString(")\n\nfunc main() {}\n")
	os.WriteFile(filepath.Join(dir, "go.mod"), []byte("module zstd\n\ngo 1.22\n"), 0o644)
	os.WriteFile(filepath.Join(dir, "main.go"), []byte(sb.String()), 0o644)
	cwd, _ := os.Getwd()
	os.Chdir(dir)
	defer os.Chdir(cwd)
	prog, _, err := analysis.LoadProgram(analysis.LoadProgramOptions{BuildMode: ssa.InstantiateGenerics | ssa.BuildSerially}, []string{"."})
	if err != nil {
		return nil, nil, err
	}
	cfg, err := drv.LoadConfig(drv.Cfg{}.Yaml())
	if err != nil {
		return nil, nil, err
	}
	st, err := df.NewInitializedAnalyzerState(prog, nil, config.NewLogGroup(cfg), cfg)
	if err != nil {
		return nil, nil, err
	}
	want := map[string]bool{}
	for _, p := range pkgs {
		want[p] = true
	}
	var fns []*ssa.Function
	for f := range ssautil.AllFunctions(prog) {
		if f.TypeParams().Len() > 0 && len(f.TypeArgs()) == 0 {
			// the body of an uninstantiated generic function: the tool loads programs with ssa.InstantiateGenerics, so
			// such a body is never reachable and never summarised
			continue
		}
		if f.Pkg != nil && want[f.Pkg.Pkg.Path()] && len(f.Blocks) > 0 && f.Synthetic == "" {
			fns = append(fns, f)
		}
	}
	sort.Slice(fns, func(i, j int) bool { return fns[i].String() < fns[j].String() })
	return st, fns, nil
}

package main

import (
	"flag"
	"fmt"
	"os"
	"sort"
	"strings"

	"github.com/awslabs/ar-go-tools/internal/zzverif/drv"
	"github.com/awslabs/ar-go-tools/internal/zzverif/gen"
)

func init() { subcmds["cid"] = cidCmd }

type cidRec struct {
	Idx      int             `json:"idx"`
	Sig      string          `json:"sig"`
	Atoms    []string        `json:"atoms"`
	Expected map[string]bool `json:"expected"`
	Got      map[string]bool `json:"got"`
	Missed   []string        `json:"missed"`   // reference: matched, tool: not treated in the role
	Spurious []string        `json:"spurious"` // reference: no spec matches, tool: treated in the role
	Err      string          `json:"err,omitempty"`
	Panic    string          `json:"panic,omitempty"`
	LoadErr  string          `json:"load_err,omitempty"`
}

func yq(s string) string { return "\"" + strings.ReplaceAll(s, "\\", "\\\\") + "\"" }

func cidYaml(c gen.CIDCase) string {
	ident := func(s gen.CIDSpec) string {
		var sb strings.Builder
		first := true
		add := func(k, v string) {
			if v == "" {
				return
			}
			if first {
				fmt.Fprintf(&sb, "      - %s: %s\n", k, yq(v))
				first = false
			} else {
				fmt.Fprintf(&sb, "        %s: %s\n", k, yq(v))
			}
		}
		add("package", s.Package)
		add("method", s.Method)
		add("receiver", s.Receiver)
		add("context", s.Context)
		return sb.String()
	}
	if c.Ident != nil {
		ident = func(gen.CIDSpec) string {
			var sb strings.Builder
			first := true
			for _, kv := range c.Ident {
				if kv[1] == "" {
					continue
				}
				if first {
					fmt.Fprintf(&sb, "      - %s: %s\n", kv[0], yq(kv[1]))
					first = false
				} else {
					fmt.Fprintf(&sb, "        %s: %s\n", kv[0], yq(kv[1]))
				}
			}
			return sb.String()
		}
	}
	rtSrc := "      - package: \"zsubj/rt\"\n        method: \"^Source[0-9]$\"\n"
	rtSnk := "      - package: \"zsubj/rt\"\n        method: \"^Sink[0-9]$\"\n"
	y := "options:\n  log-level: 1\n  silence-warn: true\ntaint-tracking-problems:\n  - "
	switch c.Role {
	case "source":
		y += "sources:\n" + ident(c.Spec) + "    sinks:\n" + rtSnk
	case "sink":
		y += "sources:\n" + rtSrc + "    sinks:\n" + ident(c.Spec)
	case "sanitizer":
		y += "sources:\n" + rtSrc + "    sinks:\n" + rtSnk + "    sanitizers:\n" + ident(c.Spec)
	case "validator":
		y += "sources:\n" + rtSrc + "    sinks:\n" + rtSnk + "    validators:\n" + ident(c.Spec)
	}
	return y
}

func cidCmd(args []string) int {
	fs := flag.NewFlagSet("cid", flag.ExitOnError)
	_, shard, outp := commonFlags(fs)
	fam := fs.String("family", "calls", "calls | kinds")
	fs.Parse(args)
	cases := gen.EnumerateCID()
	if *fam == "kinds" {
		cases = gen.EnumerateCIDKinds()
	}
	si, sn := parseShard(*shard)
	o := newOut(*outp)
	defer o.close()
	for i, c := range cases {
		if i%sn != si || i <= from {
			continue
		}
		fmt.Fprintf(os.Stderr, "BEGIN %d %s\n", i, c.Sig)
		rec := cidRec{Idx: i, Sig: c.Sig, Atoms: c.Atoms, Expected: c.Expected, Got: map[string]bool{}}
		func() {
			defer func() {
				if r := recover(); r != nil {
					rec.Panic = fmt.Sprint(r)
				}
			}()
			l, err := drv.LoadInProcessExtra(c.Src, gen.AnalysisRT, []drv.ExtraPkg{{Path: gen.LibPath, Src: c.Lib}})
			if err != nil {
				rec.LoadErr = err.Error()
				return
			}
			res, raw := drv.RunTaintYaml(l, cidYaml(c))
			rec.Err, rec.Panic = res.Err, res.Panic
			if raw != nil && raw.TaintFlows != nil {
				for snk, srcs := range raw.TaintFlows.Sinks {
					for src := range srcs {
						var id string
						switch c.Role {
						case "source":
							id = drv.SiteID(snk.Instr) // which rt.SinkN observed it
						default:
							if c.Role == "sink" {
								id = drv.SiteID(src.Instr) // which rt.SourceN reached a matched sink
							} else {
								id = drv.SiteID(snk.Instr)
							}
						}
						rec.Got[id] = true
					}
				}
			}
			for id, want := range c.Expected {
				got := rec.Got[id]
				positive := c.Role == "source" || c.Role == "sink"
				switch {
				case want && !got && positive, !want && got && !positive:
					rec.Missed = append(rec.Missed, id)
				case !want && got && positive, want && !got && !positive:
					rec.Spurious = append(rec.Spurious, id)
				}
			}
			sort.Strings(rec.Missed)
			sort.Strings(rec.Spurious)
		}()
		o.emit(rec)
	}
	fmt.Fprintf(os.Stderr, "DONE\n")
	return 0
}

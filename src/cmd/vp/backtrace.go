package main

import (
	"flag"
	"fmt"
	"os"
	"sort"
	"strings"

	"github.com/awslabs/ar-go-tools/analysis/backtrace"
	"github.com/awslabs/ar-go-tools/analysis/config"
	df "github.com/awslabs/ar-go-tools/analysis/dataflow"
	"github.com/awslabs/ar-go-tools/internal/zzverif/drv"
	"github.com/awslabs/ar-go-tools/internal/zzverif/gen"
	"golang.org/x/tools/go/ssa"
)

func init() { subcmds["backtrace"] = backtraceCmd }

type btEntry struct {
	Sink    string     `json:"sink"`    // sink id ("1")
	Arg     int        `json:"arg"`     // argument index
	Origins [][]string `json:"origins"` // per trace: names of the callees of call nodes on the trace
	Bad     []string   `json:"bad"`     // well-formedness violations
	NTraces int        `json:"ntraces"`
}

type btRun struct {
	Entries []btEntry `json:"entries"`
	Err     string    `json:"err,omitempty"`
	Panic   string    `json:"panic,omitempty"`
}

type btRec struct {
	Idx     int      `json:"idx"`
	Sig     string   `json:"sig"`
	Atoms   []string `json:"atoms"`
	Runs    []btRun  `json:"runs"` // eager, on-demand
	LoadErr string   `json:"load_err,omitempty"`
}

func calleeName(i ssa.Instruction) string {
	c, ok := i.(ssa.CallInstruction)
	if !ok {
		return ""
	}
	if c.Common().IsInvoke() {
		return c.Common().Method.Name()
	}
	if f := c.Common().StaticCallee(); f != nil {
		return f.Name()
	}
	return ""
}

func interKind(n df.GraphNode) bool {
	switch n.(type) {
	case *df.ParamNode, *df.CallNode, *df.CallNodeArg, *df.ReturnValNode, *df.ClosureNode, *df.BoundVarNode, *df.FreeVarNode,
		*df.AccessGlobalNode, *df.BoundLabelNode:
		return true
	}
	return false
}

// connected is a liberal structural check of two consecutive trace nodes a (closer to the origin) and b: inside one
// summary graph, two nodes that cannot be linked inter-procedurally must share a summary edge.
func connected(a, b df.GraphNode) bool {
	if a == nil || b == nil {
		return false
	}
	if _, ok := b.Out()[a]; ok {
		return true
	}
	if _, ok := a.Out()[b]; ok {
		return true
	}
	if _, ok := b.In()[a]; ok {
		return true
	}
	if _, ok := a.In()[b]; ok {
		return true
	}
	if a.Graph() != b.Graph() {
		// inter-procedural step: both ends must be of a kind that can carry one
		return interKind(a) && interKind(b)
	}
	// same graph, no edge: only legitimate between inter-procedural kinds (call <-> its args, closure <-> bound vars, ...)
	return interKind(a) && interKind(b)
}

func runBacktrace(l *drv.Loaded, onDemand bool) (run btRun) {
	defer func() {
		if r := recover(); r != nil {
			run.Panic = fmt.Sprint(r)
		}
	}()
	cfg, err := drv.LoadConfig(drv.BacktraceYaml(onDemand))
	if err != nil {
		run.Err = err.Error()
		return
	}
	res, err := backtrace.Analyze(config.NewLogGroup(cfg), cfg, l.Prog, nil)
	if err != nil {
		run.Err = err.Error()
		if len(run.Err) > 300 {
			run.Err = run.Err[:300]
		}
	}
	for entry, traces := range res.Traces {
		e := btEntry{NTraces: len(traces)}
		if arg, ok := entry.(*df.CallNodeArg); ok {
			e.Arg = arg.Index()
			name := calleeName(df.Instr(arg))
			if m := digitsOf(name); m != "" {
				e.Sink = m
			} else {
				e.Sink = "?" + name
			}
		} else {
			e.Sink = "?" + entry.String()
		}
		for ti, tr := range traces {
			names := map[string]bool{}
			for _, n := range tr {
				if n.GraphNode == nil {
					continue
				}
				if nm := calleeName(df.Instr(n.GraphNode)); nm != "" {
					names[nm] = true
				}
			}
			var ns []string
			for k := range names {
				ns = append(ns, k)
			}
			sort.Strings(ns)
			e.Origins = append(e.Origins, ns)
			if len(tr) == 0 {
				e.Bad = append(e.Bad, fmt.Sprintf("trace %d is empty", ti))
				continue
			}
			if last := tr[len(tr)-1].GraphNode; last != entry {
				e.Bad = append(e.Bad, fmt.Sprintf("trace %d does not end at the entry argument: ends at %v", ti, last))
			}
			for i := 0; i+1 < len(tr); i++ {
				if !connected(tr[i].GraphNode, tr[i+1].GraphNode) {
					e.Bad = append(e.Bad, fmt.Sprintf("trace %d: no dataflow step between node %d (%v) and node %d (%v)", ti, i,
						tr[i].GraphNode, i+1, tr[i+1].GraphNode))
				}
			}
		}
		run.Entries = append(run.Entries, e)
	}
	sort.Slice(run.Entries, func(i, j int) bool {
		if run.Entries[i].Sink != run.Entries[j].Sink {
			return run.Entries[i].Sink < run.Entries[j].Sink
		}
		return run.Entries[i].Arg < run.Entries[j].Arg
	})
	return
}

func digitsOf(name string) string {
	if name == "" {
		return ""
	}
	c := name[len(name)-1]
	if c >= '0' && c <= '9' && (strings.HasPrefix(name, "Sink") || strings.HasPrefix(name, "sink")) {
		return string(c)
	}
	return ""
}

func backtraceCmd(args []string) int {
	fs := flag.NewFlagSet("backtrace", flag.ExitOnError)
	bounds, shard, outp := commonFlags(fs)
	fam := fs.String("family", "taint", "program family")
	fs.Parse(args)
	progs := family(*fam, *bounds)
	si, sn := parseShard(*shard)
	o := newOut(*outp)
	defer o.close()
	for i, p := range progs {
		if i%sn != si || i <= from {
			continue
		}
		fmt.Fprintf(os.Stderr, "BEGIN %d %s\n", i, p.Sig())
		rec := btRec{Idx: i, Sig: p.Sig(), Atoms: p.Atoms()}
		src := drv.MainSource(p, gen.Prefix(i))
		for _, od := range []bool{false, true} {
			l, err := drv.LoadInProcess(src, gen.AnalysisRT)
			if err != nil {
				rec.LoadErr = err.Error()
				break
			}
			rec.Runs = append(rec.Runs, runBacktrace(l, od))
		}
		o.emit(rec)
	}
	fmt.Fprintf(os.Stderr, "DONE\n")
	return 0
}

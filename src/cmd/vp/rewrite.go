package main

import (
	"encoding/json"
	"flag"
	"fmt"
	"os"
	"path/filepath"
	"strings"

	"github.com/awslabs/ar-go-tools/internal/zzverif/rewr"
)

func init() { subcmds["rewrite"] = rewriteCmd }

// rewriteCmd rewrites the concurrency constructs of the given repository files (relative to /repo) onto the vsched
// shims, writes the copies under -outdir and prints {"replace": {repoPath: copyPath}, "stats": {...}}.
func rewriteCmd(args []string) int {
	fs := flag.NewFlagSet("rewrite", flag.ExitOnError)
	outdir := fs.String("outdir", "/verif/build/rw", "output directory")
	repo := fs.String("repo", "/repo", "repository root")
	typed := fs.Bool("typed", false, "typed mode: arguments are package patterns; map ranges are rewritten onto the order seam")
	fs.Parse(args)
	if *typed {
		files, sst, tst, err := rewr.Typed(*repo, fs.Args())
		if err != nil {
			fmt.Fprintln(os.Stderr, "REWRITE-ERROR", err)
			return 2
		}
		replace := map[string]string{}
		for rel, text := range files {
			dst := filepath.Join(*outdir, rel)
			os.MkdirAll(filepath.Dir(dst), 0o755)
			if err := os.WriteFile(dst, text, 0o644); err != nil {
				fmt.Fprintln(os.Stderr, "REWRITE-ERROR", err)
				return 2
			}
			replace[rel] = dst
		}
		b, _ := json.Marshal(map[string]any{"replace": replace, "stats": sst, "typed": tst})
		fmt.Println(string(b))
		return 0
	}
	replace := map[string]string{}
	stats := map[string]rewr.Stats{}
	var files []string
	for _, a := range fs.Args() {
		p := filepath.Join(*repo, a)
		st, err := os.Stat(p)
		if err != nil {
			fmt.Fprintln(os.Stderr, "REWRITE-ERROR", err)
			return 2
		}
		if st.IsDir() {
			es, _ := os.ReadDir(p)
			for _, e := range es {
				if strings.HasSuffix(e.Name(), ".go") && !strings.HasSuffix(e.Name(), "_test.go") {
					files = append(files, filepath.Join(a, e.Name()))
				}
			}
		} else {
			files = append(files, a)
		}
	}
	for _, rel := range files {
		src, err := os.ReadFile(filepath.Join(*repo, rel))
		if err != nil {
			fmt.Fprintln(os.Stderr, "REWRITE-ERROR", err)
			return 2
		}
		out, st, changed, err := rewr.File(rel, src)
		if err != nil {
			fmt.Fprintln(os.Stderr, "REWRITE-ERROR", err)
			return 2
		}
		if !changed {
			continue
		}
		dst := filepath.Join(*outdir, rel)
		os.MkdirAll(filepath.Dir(dst), 0o755)
		if err := os.WriteFile(dst, out, 0o644); err != nil {
			fmt.Fprintln(os.Stderr, "REWRITE-ERROR", err)
			return 2
		}
		replace[rel] = dst
		stats[rel] = st
	}
	b, _ := json.Marshal(map[string]any{"replace": replace, "stats": stats})
	fmt.Println(string(b))
	return 0
}

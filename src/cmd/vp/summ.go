package main

import (
	"flag"
	"fmt"
	"go/token"
	"os"
	"sort"

	df "github.com/awslabs/ar-go-tools/analysis/dataflow"
	"github.com/awslabs/ar-go-tools/analysis/taint"
	"github.com/awslabs/ar-go-tools/internal/zzverif/drv"
	"github.com/awslabs/ar-go-tools/internal/zzverif/gen"
	"golang.org/x/tools/go/ssa"
)

func init() { subcmds["summ"] = summCmd }

type summRec struct {
	Idx          int      `json:"idx"`
	Sig          string   `json:"sig"`
	Atoms        []string `json:"atoms"`
	Funcs        int      `json:"funcs"`
	Values       int      `json:"values"` // SSA values visited by the reference BFS
	Edges        int      `json:"edges"`  // operand edges followed
	Pairs        int      `json:"pairs"`
	Long         int      `json:"long"` // pairs connected through >= 2 instructions
	Missing      []string `json:"missing"`
	MAtoms       []string `json:"matoms"`
	ClosurePairs int      `json:"closure_pairs"` // (predecessor instruction, instruction, value, mark) inclusions checked
	Panic        string   `json:"panic,omitempty"`
	LoadErr      string   `json:"load_err,omitempty"`
}

var transferBuiltins = map[string]bool{"append": true, "min": true, "max": true, "len": true, "real": true, "imag": true,
	"complex": true, "ssa:wrapnilchk": true}

func isBuiltinCall(c *ssa.CallCommon) (string, bool) {
	if b, ok := c.Value.(*ssa.Builtin); ok {
		return b.Name(), true
	}
	return "", false
}

// valueSuccs returns the instructions that compute a new value directly from v (the def-use edges of the property).
func valueSuccs(v ssa.Value) []ssa.Value {
	refs := v.Referrers()
	if refs == nil {
		return nil
	}
	var out []ssa.Value
	for _, r := range *refs {
		switch x := r.(type) {
		case *ssa.BinOp:
			out = append(out, x)
		case *ssa.UnOp:
			if x.Op != token.MUL && x.Op != token.ARROW { // loads and receives are memory/channel operations
				out = append(out, x)
			}
		case *ssa.Convert:
			out = append(out, x)
		case *ssa.ChangeType:
			out = append(out, x)
		case *ssa.ChangeInterface:
			out = append(out, x)
		case *ssa.MakeInterface:
			out = append(out, x)
		case *ssa.TypeAssert:
			out = append(out, x)
		case *ssa.Field:
			out = append(out, x)
		case *ssa.Index:
			if x.X == v { // the indexed aggregate, not the index
				out = append(out, x)
			}
		case *ssa.Phi:
			out = append(out, x)
		case *ssa.Extract:
			// the ok flag of a comma-ok operation is not data of the operand
			if x.Index == 1 {
				switch t := x.Tuple.(type) {
				case *ssa.TypeAssert:
					if t.CommaOk {
						continue
					}
				case *ssa.Lookup:
					if t.CommaOk {
						continue
					}
				case *ssa.UnOp:
					if t.CommaOk {
						continue
					}
				}
			}
			out = append(out, x)
		case *ssa.Slice:
			if x.X == v {
				out = append(out, x)
			}
		case *ssa.Call:
			if name, ok := isBuiltinCall(&x.Call); ok && transferBuiltins[name] {
				out = append(out, x)
			}
		}
	}
	return out
}

type target struct {
	desc  string
	nodes []df.GraphNode
	atom  string
}

func summCmd(args []string) int {
	fs := flag.NewFlagSet("summ", flag.ExitOnError)
	bounds, shard, outp := commonFlags(fs)
	fam := fs.String("family", "taint", "program family")
	fs.Parse(args)
	subs := subjects(*fam, *bounds)
	si, sn := parseShard(*shard)
	o := newOut(*outp)
	defer o.close()
	for i, s := range subs {
		if i%sn != si || i <= from {
			continue
		}
		fmt.Fprintf(os.Stderr, "BEGIN %d %s\n", i, s.Sig)
		rec := summRec{Idx: i, Sig: s.Sig, Atoms: s.Atoms}
		func() {
			defer func() {
				if r := recover(); r != nil {
					rec.Panic = fmt.Sprint(r)
				}
			}()
			for _, fsens := range []bool{false, true} {
				_ = fsens
			}
			l, st, err := freshState(s.Src, false)
			if err != nil {
				rec.LoadErr = err.Error()
				return
			}
			_ = l
			var fns []*ssa.Function
			for f, sm := range st.FlowGraph.Summaries {
				if sm != nil && sm.Constructed && !sm.IsPreSummarized && len(f.Blocks) > 0 {
					fns = append(fns, f)
				}
			}
			sort.Slice(fns, func(a, b int) bool { return fns[a].String() < fns[b].String() })
			matoms := map[string]bool{}
			for _, f := range fns {
				rec.Funcs++
				sm := st.FlowGraph.Summaries[f]
				checkFunction(f, sm, &rec, matoms)
				cv, cp, od := closureViolations(st, f, taint.IsNodeOfInterest)
				rec.ClosurePairs += cp
				if len(cv) > 0 {
					rec.Missing = append(rec.Missing, cv...)
					matoms[closureAtom(od)] = true
				}
			}
			// the closure clause again under the field-sensitive configuration (marks carry access paths there)
			if _, st2, err := freshStateCfg(s.Src, drv.Cfg{FieldSensitive: true}); err == nil {
				for _, f := range fns {
					var f2 *ssa.Function
					for g, sm := range st2.FlowGraph.Summaries {
						if sm != nil && g.String() == f.String() {
							f2 = g
						}
					}
					if f2 == nil {
						continue
					}
					cv, cp, od := closureViolations(st2, f2, taint.IsNodeOfInterest)
					rec.ClosurePairs += cp
					if len(cv) > 0 {
						rec.Missing = append(rec.Missing, cv...)
						matoms[closureAtom(od)] = true
						matoms["cfg:fs"] = true
					}
				}
			}
			for a := range matoms {
				rec.MAtoms = append(rec.MAtoms, a)
			}
			sort.Strings(rec.MAtoms)
		}()
		if len(rec.Missing) > 10 {
			rec.Missing = rec.Missing[:10]
		}
		o.emit(rec)
	}
	fmt.Fprintf(os.Stderr, "DONE\n")
	return 0
}

func callNodes(sm *df.SummaryGraph, c ssa.CallInstruction) []*df.CallNode {
	var out []*df.CallNode
	for _, n := range sm.Callees[c] {
		out = append(out, n)
	}
	return out
}

// checkFunction runs the reference BFS from every origin of f and demands a summary edge origin -> target for every
// reachable target.
func checkFunction(f *ssa.Function, sm *df.SummaryGraph, rec *summRec, matoms map[string]bool) {
	type origin struct {
		desc  string
		val   ssa.Value
		nodes []df.GraphNode
	}
	var origins []origin
	for _, p := range f.Params {
		if n := sm.Params[p]; n != nil {
			origins = append(origins, origin{"param " + p.Name(), p, []df.GraphNode{n}})
		}
	}
	for _, fv := range f.FreeVars {
		if n := sm.FreeVars[fv]; n != nil {
			origins = append(origins, origin{"freevar " + fv.Name(), fv, []df.GraphNode{n}})
		}
	}
	for _, b := range f.Blocks {
		for _, ins := range b.Instrs {
			c, ok := ins.(*ssa.Call)
			if !ok {
				continue
			}
			if _, isB := isBuiltinCall(&c.Call); isB {
				continue
			}
			var ns []df.GraphNode
			for _, n := range callNodes(sm, c) {
				ns = append(ns, n)
			}
			if len(ns) > 0 && c.Call.Signature().Results().Len() > 0 {
				origins = append(origins, origin{"call " + c.Name(), c, ns})
			}
		}
	}
	// targets by value
	targetsOf := map[ssa.Value][]target{}
	addT := func(v ssa.Value, t target) { targetsOf[v] = append(targetsOf[v], t) }
	for _, b := range f.Blocks {
		for _, ins := range b.Instrs {
			switch x := ins.(type) {
			case *ssa.Return:
				for k, r := range x.Results {
					if rs := sm.Returns[x]; k < len(rs) && rs[k] != nil {
						addT(r, target{fmt.Sprintf("return[%d]", k), []df.GraphNode{rs[k]}, "tgt:return"})
					}
				}
			case *ssa.If:
				if n := sm.Ifs[x]; n != nil {
					addT(x.Cond, target{"if-condition", []df.GraphNode{n}, "tgt:if"})
				}
			case *ssa.MakeClosure:
				if cl := sm.CreatedClosures[x]; cl != nil {
					for k, bv := range x.Bindings {
						if k < len(cl.BoundVars()) {
							addT(bv, target{fmt.Sprintf("closure-binding[%d]", k), []df.GraphNode{cl.BoundVars()[k]}, "tgt:boundvar"})
						}
					}
				}
			}
			if c, ok := ins.(ssa.CallInstruction); ok {
				if _, isB := isBuiltinCall(c.Common()); isB {
					continue
				}
				cns := callNodes(sm, c)
				var argVals0 []ssa.Value
				if c.Common().IsInvoke() {
					argVals0 = append(argVals0, c.Common().Value)
				}
				argVals0 = append(argVals0, c.Common().Args...)
				if len(cns) == 0 {
					// a statically resolved non-builtin call without any call node: every origin reaching an argument is
					// disconnected (dynamic calls may legitimately have no resolved callee)
					if c.Common().StaticCallee() == nil {
						continue
					}
					atom := "tgt:callarg-nonode"
					switch c.Common().StaticCallee().Name() {
					case "append", "cap", "len", "copy", "close", "delete", "min", "max", "clear", "print", "println", "recover", "new", "make", "panic", "complex", "real", "imag":
						// a user function or METHOD whose name equals a builtin's
						atom = "tgt:callarg-nonode-builtin-name"
					}
					for _, av := range argVals0 {
						addT(av, target{"argument of " + ins.String() + " (call has no call node in the summary)", nil, atom})
					}
					continue
				}
				var argVals []ssa.Value
				if c.Common().IsInvoke() {
					argVals = append(argVals, c.Common().Value)
				}
				argVals = append(argVals, c.Common().Args...)
				for _, av := range argVals {
					var ns []df.GraphNode
					for _, cn := range cns {
						if a := cn.FindArg(av); a != nil {
							ns = append(ns, a)
						}
					}
					if len(ns) > 0 {
						kind := "tgt:callarg"
						switch ins.(type) {
						case *ssa.Defer:
							kind = "tgt:deferarg"
						case *ssa.Go:
							kind = "tgt:goarg"
						}
						addT(av, target{"argument of " + ins.String(), ns, kind})
					}
				}
			}
		}
	}
	for _, o := range origins {
		// BFS over the value graph
		dist := map[ssa.Value]int{o.val: 0}
		queue := []ssa.Value{o.val}
		for len(queue) > 0 {
			v := queue[0]
			queue = queue[1:]
			rec.Values++
			for _, t := range targetsOf[v] {
				rec.Pairs++
				if dist[v] >= 2 {
					rec.Long++
				}
				if !hasEdge(o.nodes, t.nodes) {
					rec.Missing = append(rec.Missing, fmt.Sprintf("%s: %s -(%d value steps)-> %s has no summary edge", f.String(), o.desc, dist[v], t.desc))
					matoms[t.atom] = true
					matoms[fmt.Sprintf("origin:%T", o.val)] = true
				}
			}
			for _, w := range valueSuccs(v) {
				rec.Edges++
				if _, seen := dist[w]; !seen {
					dist[w] = dist[v] + 1
					queue = append(queue, w)
				}
			}
		}
	}
}

func hasEdge(from, to []df.GraphNode) bool {
	for _, a := range from {
		for _, b := range to {
			if _, ok := a.Out()[b]; ok {
				return true
			}
		}
	}
	return false
}

var _ = gen.RTPath

func init() { subcmds["summ-std"] = summStdCmd }

// summStdCmd checks O1 on every function of the given standard-library packages, loaded through go/packages from a
// program that imports them; every function is summarised directly with IntraProceduralAnalysis.
func summStdCmd(args []string) int {
	fs := flag.NewFlagSet("summ-std", flag.ExitOnError)
	_, shard, outp := commonFlags(fs)
	pkgs := fs.String("pkgs", "strings,strconv,bytes", "comma-separated std packages")
	fs.Parse(args)
	si, sn := parseShard(*shard)
	o := newOut(*outp)
	defer o.close()
	st, fns, err := loadStd(splitList(*pkgs))
	if err != nil {
		fmt.Fprintln(os.Stderr, "LOADERR", err)
		return 2
	}
	for i, f := range fns {
		if i%sn != si || i <= from {
			continue
		}
		fmt.Fprintf(os.Stderr, "BEGIN %d %s\n", i, f.String())
		rec := summRec{Idx: i, Sig: f.String(), Atoms: []string{"std:" + f.Pkg.Pkg.Path()}}
		func() {
			defer func() {
				if r := recover(); r != nil {
					rec.Panic = fmt.Sprint(r)
				}
			}()
			res, err := df.IntraProceduralAnalysis(st, f, true, df.GetUniqueFunctionID(), stdShouldTrack, nil)
			if err != nil || res.Summary == nil {
				rec.LoadErr = fmt.Sprint(err)
				return
			}
			matoms := map[string]bool{}
			rec.Funcs = 1
			checkFunction(f, res.Summary, &rec, matoms)
			cv, cp, od := closureViolations(st, f, stdShouldTrack)
			rec.ClosurePairs += cp
			if len(cv) > 0 {
				rec.Missing = append(rec.Missing, cv...)
				matoms[closureAtom(od)] = true
			}
			for a := range matoms {
				rec.MAtoms = append(rec.MAtoms, a)
			}
			sort.Strings(rec.MAtoms)
		}()
		if len(rec.Missing) > 6 {
			rec.Missing = rec.Missing[:6]
		}
		o.emit(rec)
	}
	fmt.Fprintf(os.Stderr, "DONE\n")
	return 0
}

// closureViolations checks the second clause of C08 on the REAL final abstract state of f: the state is closed under
// control-flow propagation, i.e. for every instruction i and every CFG predecessor instruction p of i (reference
// predecessor relation computed here from the SSA blocks, independently of the implementation's own map), every
// (access path, mark) attached to a value at p is attached to it at i. The analysis is re-run for f with a post-block
// callback that hands out the analysis state; the check reads it after the fixpoint has been reached.
func closureViolations(st *df.AnalyzerState, f *ssa.Function, track func(*df.AnalyzerState, ssa.Node) bool) (viol []string, pairs int, onlyDefer bool) {
	onlyDefer = true
	var final *df.IntraAnalysisState
	_, err := df.IntraProceduralAnalysis(st, f, true, df.GetUniqueFunctionID(), track, func(s *df.IntraAnalysisState) { final = s })
	if err != nil || final == nil {
		return nil, 0, false
	}
	fi := final.FlowInfo()
	ignored := func(i ssa.Instruction) bool { _, ok := i.(*ssa.DebugRef); return ok }
	kept := func(b *ssa.BasicBlock) []ssa.Instruction {
		var out []ssa.Instruction
		for _, i := range b.Instrs {
			if !ignored(i) {
				out = append(out, i)
			}
		}
		return out
	}
	// blocks reachable from the entry
	reach := map[*ssa.BasicBlock]bool{}
	var walk func(b *ssa.BasicBlock)
	walk = func(b *ssa.BasicBlock) {
		if reach[b] {
			return
		}
		reach[b] = true
		for _, s := range b.Succs {
			walk(s)
		}
	}
	if len(f.Blocks) > 0 {
		walk(f.Blocks[0])
	}
	if f.Recover != nil {
		walk(f.Recover)
	}
	n := fi.NumValues
	sub := func(p, i ssa.Instruction) {
		pp, ok1 := fi.InstrID[p]
		ii, ok2 := fi.InstrID[i]
		if !ok1 || !ok2 {
			return
		}
		for v := df.IndexT(0); v < n; v++ {
			a := fi.MarkedValues[pp*n+v]
			if a == nil {
				continue
			}
			b := fi.MarkedValues[ii*n+v]
			for _, m := range a.AllMarks() {
				pairs++
				if b == nil || !b.HasMarkAt(m.AccessPath, m.Mark) {
					if _, isDefer := m.Mark.Node.(*ssa.Defer); !isDefer {
						onlyDefer = false
					}
					if len(viol) < 4 {
						viol = append(viol, fmt.Sprintf("%s: mark %s (path %q) on value #%d is attached after [%s] but not after its successor [%s]",
							f.String(), m.Mark.String(), m.AccessPath, v, p.String(), i.String()))
					}
				}
			}
		}
	}
	for _, b := range f.Blocks {
		if !reach[b] {
			continue
		}
		ins := kept(b)
		for k, i := range ins {
			if k > 0 {
				sub(ins[k-1], i)
				continue
			}
			for _, pb := range b.Preds {
				if !reach[pb] {
					continue
				}
				if pi := kept(pb); len(pi) > 0 {
					sub(pi[len(pi)-1], i)
				}
			}
		}
	}
	return viol, pairs, onlyDefer
}

// closureAtom names a closure-clause failure: marks of deferred calls (attached at the Defer instruction by the
// RunDefers simulation, i.e. after the instructions following the defer were processed) are told apart from all others.
func closureAtom(onlyDeferMarks bool) string {
	if onlyDeferMarks {
		return "clause:state-not-closed-defer-marks-only"
	}
	return "clause:state-not-closed"
}

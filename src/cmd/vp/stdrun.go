package main

import (
	"encoding/json"
	"flag"
	"fmt"
	"os"
	"path/filepath"
	"sort"
	"strings"

	"github.com/awslabs/ar-go-tools/analysis"
	"github.com/awslabs/ar-go-tools/analysis/taint"
	"github.com/awslabs/ar-go-tools/internal/zzverif/drv"
	"github.com/awslabs/ar-go-tools/internal/zzverif/gen"
	"golang.org/x/tools/go/ssa"
)

func init() { subcmds["stdrun"] = stdrunCmd }

type stdFnRef struct {
	Entry *StdEntry
	Fn    *StdFn
}

// entriesFile, when set, makes stdFunctions read the table entries produced by `vp stdtab` instead of loading the
// standard library again.
var entriesFile string

func stdFunctions() ([]StdEntry, []stdFnRef, error) {
	var ents []StdEntry
	var err error
	if entriesFile != "" {
		f, e := os.Open(entriesFile)
		if e != nil {
			return nil, nil, e
		}
		defer f.Close()
		dec := json.NewDecoder(f)
		for dec.More() {
			var x StdEntry
			if e := dec.Decode(&x); e != nil {
				return nil, nil, e
			}
			ents = append(ents, x)
		}
	} else {
		ents, err = stdEntries()
	}
	if err != nil {
		return nil, nil, err
	}
	var refs []stdFnRef
	for i := range ents {
		for j := range ents[i].Funcs {
			refs = append(refs, stdFnRef{&ents[i], &ents[i].Funcs[j]})
		}
	}
	return ents, refs, nil
}

func importBlock(imps map[string]bool) string {
	var ps []string
	for p := range imps {
		ps = append(ps, p)
	}
	sort.Strings(ps)
	var sb strings.Builder
	sb.WriteString("import (\n\t\"" + gen.RTPath + "\"\n")
	for _, p := range ps {
		fmt.Fprintf(&sb, "\t%s %q\n", alias(p), p)
	}
	sb.WriteString(")\n")
	return sb.String()
}

// stdNativeFiles packs every generated one-call function into native packages.
func stdNativeFiles() (map[string]string, int, error) {
	_, refs, err := stdFunctions()
	if err != nil {
		return nil, 0, err
	}
	files := map[string]string{}
	imps := map[string]bool{}
	var body, reg strings.Builder
	reg.WriteString("func noreset() {}\nvar Progs = []rt.Entry{\n")
	for _, r := range refs {
		for _, p := range r.Fn.Imports {
			imps[p] = true
		}
		body.WriteString(r.Fn.Text)
		fmt.Fprintf(&reg, "\t{Name: %q, Main: %s, Reset: noreset},\n", r.Fn.Name, r.Fn.Name)
	}
	reg.WriteString("}\n")
	files["s0/funcs.go"] = "package s0\n\n" + importBlock(imps) + "\n" + body.String() + reg.String()
	return files, len(refs), nil
}

type stdRunRec struct {
	Name    string   `json:"name"`
	Key     string   `json:"key"`
	Src     int      `json:"src"`
	Targets []string `json:"targets"`
	Flows   []string `json:"flows"` // sink ids reached from the source of this function
	Err     string   `json:"err,omitempty"`
	Panic   string   `json:"panic,omitempty"`
	LoadErr string   `json:"load_err,omitempty"`
}

func stdrunCmd(args []string) int {
	fs := flag.NewFlagSet("stdrun", flag.ExitOnError)
	_, shard, outp := commonFlags(fs)
	batch := fs.Int("batch", 10, "calls per analysed program")
	fs.StringVar(&entriesFile, "entries", "", "entries file written by `vp stdtab`")
	only := fs.String("pkgs", "", "restrict to entries of these table packages (comma-separated)")
	skip := fs.String("skip", "", "skip entries of these table packages")
	fs.Parse(args)
	si, sn := parseShard(*shard)
	_, refs, err := stdFunctions()
	if err != nil {
		fmt.Fprintln(os.Stderr, "LOADERR", err)
		return 2
	}
	if *only != "" || *skip != "" {
		keep, drop := map[string]bool{}, map[string]bool{}
		for _, p := range splitList(*only) {
			keep[p] = true
		}
		for _, p := range splitList(*skip) {
			drop[p] = true
		}
		var f []stdFnRef
		for _, r := range refs {
			if (len(keep) == 0 || keep[r.Entry.Pkg]) && !drop[r.Entry.Pkg] {
				f = append(f, r)
			}
		}
		refs = f
	}
	o := newOut(*outp)
	defer o.close()
	// batches of consecutive functions (same package tends to be adjacent)
	nb := 0
	for first := 0; first < len(refs); first += *batch {
		b := nb
		nb++
		if b%sn != si || b <= from {
			continue
		}
		last := first + *batch
		if last > len(refs) {
			last = len(refs)
		}
		group := refs[first:last]
		fmt.Fprintf(os.Stderr, "BEGIN %d %s\n", b, group[0].Fn.Name)
		recs := analyseStdBatch(group)
		for _, r := range recs {
			o.emit(r)
		}
	}
	fmt.Fprintf(os.Stderr, "DONE\n")
	return 0
}

func analyseStdBatch(group []stdFnRef) (out []stdRunRec) {
	for _, r := range group {
		out = append(out, stdRunRec{Name: r.Fn.Name, Key: r.Entry.Key, Src: r.Fn.Src, Targets: r.Fn.Targets})
	}
	fail := func(kind, msg string) []stdRunRec {
		for i := range out {
			switch kind {
			case "load":
				out[i].LoadErr = msg
			case "panic":
				out[i].Panic = msg
			}
		}
		return out
	}
	dir, err := os.MkdirTemp(os.Getenv("VERIF_SCRATCH"), "vp-stdrun-")
	if err != nil {
		return fail("load", err.Error())
	}
	defer os.RemoveAll(dir)
	imps := map[string]bool{}
	var body, mainf strings.Builder
	mainf.WriteString("func main() {\n")
	for _, r := range group {
		for _, p := range r.Fn.Imports {
			imps[p] = true
		}
		body.WriteString(r.Fn.Text)
		fmt.Fprintf(&mainf, "\t%s()\n", r.Fn.Name)
	}
	mainf.WriteString("}\n")
	os.MkdirAll(filepath.Join(dir, "rt"), 0o755)
	os.MkdirAll(filepath.Join(dir, "main"), 0o755)
	os.WriteFile(filepath.Join(dir, "go.mod"), []byte("module zsubj\n\ngo 1.22\n"), 0o644)
	os.WriteFile(filepath.Join(dir, "rt", "rt.go"), []byte(gen.AnalysisRT), 0o644)
	os.WriteFile(filepath.Join(dir, "main", "main.go"), []byte("package main\n\n"+importBlock(imps)+"\n"+body.String()+mainf.String()), 0o644)
	cwd, _ := os.Getwd()
	os.Chdir(dir)
	defer os.Chdir(cwd)
	defer func() {
		if r := recover(); r != nil {
			out = fail("panic", fmt.Sprint(r))
		}
	}()
	prog, pkgs, err := analysis.LoadProgram(analysis.LoadProgramOptions{BuildMode: ssa.InstantiateGenerics, ApplyRewrites: true}, []string{"./main"})
	if err != nil {
		return fail("load", err.Error())
	}
	cfg, err := drv.LoadConfig(drv.Cfg{}.Yaml())
	if err != nil {
		return fail("load", err.Error())
	}
	ar, err := taint.Analyze(cfg, prog, pkgs)
	e := ""
	if err != nil {
		e = err.Error()
		if len(e) > 200 {
			e = e[:200]
		}
	}
	byFn := map[string]map[string]bool{}
	if ar.TaintFlows != nil {
		for snk, srcs := range ar.TaintFlows.Sinks {
			for src := range srcs {
				// only flows whose source and sink are in the same generated function
				if src.Instr.Parent() != snk.Instr.Parent() {
					continue
				}
				fn := snk.Instr.Parent().Name()
				if byFn[fn] == nil {
					byFn[fn] = map[string]bool{}
				}
				byFn[fn][drv.SiteID(snk.Instr)] = true
			}
		}
	}
	for i := range out {
		out[i].Err = e
		for k := range byFn[out[i].Name] {
			out[i].Flows = append(out[i].Flows, k)
		}
		sort.Strings(out[i].Flows)
	}
	return out
}

package main

import (
	"bufio"
	"encoding/json"
	"flag"
	"fmt"
	"os"
	"regexp"
	"sort"
	"strings"

	"github.com/awslabs/ar-go-tools/internal/zzverif/drv"
	"github.com/awslabs/ar-go-tools/internal/zzverif/gen"
	"github.com/awslabs/ar-go-tools/internal/zzverif/vsched"
)

func init() { subcmds["determinism"] = determinismCmd }

type detSubject struct {
	Sig   string   `json:"sig"`
	Atoms []string `json:"atoms"`
	Src   string   `json:"src"`
}

type detRec struct {
	Sig           string   `json:"sig"`
	Atoms         []string `json:"atoms"`
	Cfg           string   `json:"cfg"`
	Baseline      string   `json:"baseline"`
	Points        int      `json:"points"` // scheduling points of the baseline execution
	Execs         int      `json:"execs"`
	Transitions   int      `json:"transitions"`
	States        int      `json:"states"`
	SchedExecs    int      `json:"sched_execs"`
	OrderExecs    int      `json:"order_execs"`
	Sites         int      `json:"relevant_sites"`
	Ties          int      `json:"ties"`
	Capped        bool     `json:"capped"`
	UnstableTrace bool     `json:"unstable_trace"` // the scheduling-point trace of two identical runs differs (result equal)
	Violations    []string `json:"violations"`
	Preempted     int      `json:"preempted"` // executions with >= 1 preemption or >= 1 deviating site
}

var nodeIDRe = regexp.MustCompile(`#[0-9]+(\.[0-9]+)?`)

// normIDs replaces graph-node ids (drawn from a process-global counter, so they depend on how many analyses ran before in
// this worker process - a harness artefact) by a placeholder.
func normIDs(s string) string { return nodeIDRe.ReplaceAllString(s, "#N") }

// canonResult is what C06 compares: the reported flows and escapes, whether the analysis returned an error (the error
// TEXT is not part of the property: which of several accumulated messages comes first is not a reported result), and
// the panic message if it crashed.
func canonResult(r drv.TaintResult) string {
	return fmt.Sprintf("flows=%v escapes=%v err=%v panic=%q", r.Flows, r.Escapes, r.Err != "", normIDs(r.Panic))
}

func determinismCmd(args []string) int {
	fs := flag.NewFlagSet("determinism", flag.ExitOnError)
	in := fs.String("in", "", "subjects file (JSON lines)")
	outp := fs.String("out", "", "output file (JSON lines)")
	shard := fs.String("shard", "0/1", "i/n")
	bound := fs.Int("bound", 1, "preemption bound")
	maxExecs := fs.Int("maxexecs", 1500, "execution cap per (subject, configuration, NumCPU)")
	cfgs := fs.String("cfgs", "default,fs,od,esc", "configurations")
	schedCfgs := fs.String("schedcfgs", "default", "configurations whose worker schedules are explored (the others only vary map orders)")
	fs.Parse(args)
	var si, sn int
	fmt.Sscanf(*shard, "%d/%d", &si, &sn)
	if sn == 0 {
		sn = 1
	}
	f, err := os.Open(*in)
	if err != nil {
		fmt.Fprintln(os.Stderr, err)
		return 2
	}
	defer f.Close()
	of, _ := os.Create(*outp)
	defer of.Close()
	w := bufio.NewWriter(of)
	defer w.Flush()
	cfgOf := map[string]drv.Cfg{"default": {}, "fs": {FieldSensitive: true}, "od": {OnDemand: true}, "esc": {Escape: true},
		"fs+od": {FieldSensitive: true, OnDemand: true}, "ma1": {MaxAlarms: 1}, "ma2": {MaxAlarms: 2}}
	for d := 6; d <= 20; d++ {
		cfgOf[fmt.Sprintf("md%d", d)] = drv.Cfg{Extra: fmt.Sprintf("  unsafe-max-depth: %d\n", d)}
	}
	sc := bufio.NewScanner(f)
	sc.Buffer(make([]byte, 1<<20), 1<<24)
	idx := -1
	rc := 0
	for sc.Scan() {
		idx++
		if idx%sn != si {
			continue
		}
		var sub detSubject
		if err := json.Unmarshal(sc.Bytes(), &sub); err != nil {
			continue
		}
		for _, cname := range strings.Split(*cfgs, ",") {
			cfg := cfgOf[cname]
			if strings.HasPrefix(cname, "md") && !strings.Contains(sub.Sig, "[det.") {
				continue // depth-bound configurations only for the subjects built for them
			}
			fmt.Fprintf(os.Stderr, "BEGIN %d %s %s\n", idx, sub.Sig, cname)
			rec := detRec{Sig: sub.Sig, Atoms: sub.Atoms, Cfg: cname}
			var result string
			// max-alarms: which k flows are kept may vary, the untruncated set they are drawn from may not: the canonical
			// result is (number of flows kept, all kept flows are in the untruncated set of the default configuration)
			var full map[string]bool
			if cfg.MaxAlarms > 0 {
				full = map[string]bool{}
				if l, err := drv.LoadInProcess(sub.Src, gen.AnalysisRT); err == nil {
					r, _ := drv.RunTaint(l, drv.Cfg{})
					for _, f := range r.Flows {
						full[f] = true
					}
				}
			}
			body := func() {
				l, err := drv.LoadInProcess(sub.Src, gen.AnalysisRT)
				if err != nil {
					result = "LOADERR " + err.Error()
					return
				}
				switch {
				case cname == "bt" || cname == "bt+od":
					result = normIDs(drv.RunBacktraceCanon(l, cname == "bt+od"))
				case cfg.MaxAlarms > 0:
					r, _ := drv.RunTaint(l, cfg)
					outside := []string{}
					for _, f := range r.Flows {
						if !full[f] {
							outside = append(outside, f)
						}
					}
					want := len(full)
					if want > cfg.MaxAlarms {
						want = cfg.MaxAlarms
					}
					result = fmt.Sprintf("kept=%d (expected min(k,|full|)=%d) outside-untruncated-set=%v panic=%q", len(r.Flows), want, outside, r.Panic)
				default:
					r, _ := drv.RunTaint(l, cfg)
					result = canonResult(r)
				}
			}
			env := func(ncpu int, extra map[string]int) map[string]int {
				m := map[string]int{"NumCPU": ncpu, "order:*": 0}
				for k, v := range extra {
					m[k] = v
				}
				return m
			}
			horizon := 200000
			// baseline twice
			e1 := vsched.Run(body, nil, horizon, env(3, nil))
			base := result
			e2 := vsched.Run(body, nil, horizon, env(3, nil))
			rec.Baseline = base
			rec.Points = len(e1.Points)
			rec.Ties = e1.MapTies
			rec.Execs += 2
			rec.Transitions += len(e1.Points) + len(e2.Points)
			bad := func(f string, a ...any) {
				if len(rec.Violations) < 6 {
					rec.Violations = append(rec.Violations, fmt.Sprintf(f, a...))
				}
				rc = 1
			}
			if result != base {
				bad("two runs under the same schedule and the same map orders give different results: %s vs %s", base, result)
			}
			if e1.TraceHash != e2.TraceHash {
				rec.UnstableTrace = true
			}
			if e1.Panic != "" {
				bad("baseline execution: panic in a goroutine: %s", e1.Panic)
			}
			if e1.Deadlock || e1.Leaked > 0 {
				bad("baseline execution: deadlock=%v leaked=%d blocked=%v", e1.Deadlock, e1.Leaked, e1.Blocked)
			}
			// (1) schedules, per worker count
			if !rec.UnstableTrace && strings.Contains(","+*schedCfgs+",", ","+cname+",") {
				for _, ncpu := range []int{1, 3, 4} {
					x := &vsched.Explorer{Body: body, Bound: *bound, Horizon: horizon, Env: env(ncpu, nil), MaxExecs: *maxExecs,
						Check: func(e *vsched.Exec) string {
							if e.Deadlock || e.Leaked > 0 {
								return fmt.Sprintf("deadlock=%v leaked=%d blocked=%v", e.Deadlock, e.Leaked, e.Blocked)
							}
							if result != base {
								return fmt.Sprintf("NumCPU=%d schedule %v: result %s differs from the baseline %s", ncpu, e.Choices, result, base)
							}
							return ""
						}}
					ok := x.Explore()
					rec.Execs += x.Execs
					rec.SchedExecs += x.Execs
					rec.Transitions += x.Transitions
					rec.States += len(x.States)
					rec.Preempted += x.Execs - 1
					if x.Capped {
						rec.Capped = true
					}
					if !ok {
						if strings.HasPrefix(x.Violation, "DIVERGED") {
							rec.UnstableTrace = true
						} else {
							bad("%s", x.Violation)
						}
						break
					}
				}
			}
			// (2) map iteration orders: every relevant site deviates alone (descending, rotate), plus all-descending / all-rotate
			var sites []string
			for s, n := range e1.MapSites {
				if n >= 2 {
					sites = append(sites, s)
				}
			}
			sort.Strings(sites)
			rec.Sites = len(sites)
			try := func(desc string, extra map[string]int) {
				vsched.Run(body, nil, horizon, env(3, extra))
				rec.Execs++
				rec.OrderExecs++
				rec.Preempted++
				if result != base {
					bad("map order %s: result %s differs from the baseline %s", desc, result, base)
				}
			}
			try("all sites descending", map[string]int{"order:*": 1})
			try("all sites rotated", map[string]int{"order:*": 2})
			for _, s := range sites {
				try(s+" descending", map[string]int{"order:" + s: 1})
				try(s+" rotated", map[string]int{"order:" + s: 2})
			}
			b, _ := json.Marshal(rec)
			w.Write(b)
			w.WriteByte('\n')
			w.Flush()
		}
	}
	fmt.Fprintln(os.Stderr, "DONE")
	return rc
}

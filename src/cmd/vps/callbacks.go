package main

import (
	"bufio"
	"encoding/json"
	"flag"
	"fmt"
	"os"

	"github.com/awslabs/ar-go-tools/analysis"
	"github.com/awslabs/ar-go-tools/analysis/config"
	df "github.com/awslabs/ar-go-tools/analysis/dataflow"
	"github.com/awslabs/ar-go-tools/analysis/taint"
	"github.com/awslabs/ar-go-tools/internal/zzverif/drv"
	"github.com/awslabs/ar-go-tools/internal/zzverif/gen"
	"github.com/awslabs/ar-go-tools/internal/zzverif/vsched"
	"golang.org/x/tools/go/ssa"
)

func init() { subcmds["callbacks"] = callbacksCmd }

// callbacksCmd: C20 (e). The repository's own callers of the parallel summary pass (cmd/argot/cli: summarize) pass a
// ShouldBuildSummary closure that updates plain counters. The harness passes a closure of the same shape whose counter
// update is a race-probed access, and explores the schedules of the real RunIntraProceduralPass: the closure must be
// invoked exactly once per reachable function and never from two goroutines without a happens-before order.
func callbacksCmd(args []string) int {
	fs := flag.NewFlagSet("callbacks", flag.ExitOnError)
	in := fs.String("in", "", "subjects file")
	outp := fs.String("out", "", "output file")
	shard := fs.String("shard", "0/1", "i/n")
	bound := fs.Int("bound", 1, "preemption bound")
	maxExecs := fs.Int("maxexecs", 200, "execution cap per (subject, worker count)")
	fs.Parse(args)
	var si, sn int
	fmt.Sscanf(*shard, "%d/%d", &si, &sn)
	if sn == 0 {
		sn = 1
	}
	f, err := os.Open(*in)
	if err != nil {
		return 2
	}
	defer f.Close()
	of, _ := os.Create(*outp)
	defer of.Close()
	w := bufio.NewWriter(of)
	defer w.Flush()
	sc := bufio.NewScanner(f)
	sc.Buffer(make([]byte, 1<<20), 1<<24)
	unit := -1
	for sc.Scan() {
		var sub detSubject
		if json.Unmarshal(sc.Bytes(), &sub) != nil {
			continue
		}
		for _, workers := range []int{1, 2, 3} {
			unit++
			if unit%sn != si {
				continue
			}
			fmt.Fprintf(os.Stderr, "BEGIN %d %s workers=%d\n", unit, sub.Sig, workers)
			rec := repRec{Sig: sub.Sig, Opts: fmt.Sprintf("workers=%d", workers)}
			problem := ""
			body := func() {
				problem = ""
				l, err := drv.LoadInProcess(sub.Src, gen.AnalysisRT)
				if err != nil {
					problem = "LOADERR " + err.Error()
					return
				}
				cfg, err := drv.LoadConfig(drv.Cfg{}.Yaml())
				if err != nil {
					problem = "config: " + err.Error()
					return
				}
				state, err := df.NewInitializedAnalyzerState(l.Prog, nil, config.NewLogGroup(cfg), cfg)
				if err != nil {
					problem = "state: " + err.Error()
					return
				}
				counter := new(int)
				calls := map[*ssa.Function]int{}
				analysis.RunIntraProceduralPass(state, workers, analysis.IntraAnalysisParams{
					ShouldBuildSummary: func(s *df.AnalyzerState, fn *ssa.Function) bool {
						vsched.Acc(counter, true, "ShouldBuildSummary callback: counter++")
						*counter++
						calls[fn]++
						return df.ShouldBuildSummary(s, fn)
					},
					ShouldTrack: func(s *df.AnalyzerState, n ssa.Node) bool { return taint.IsNodeOfInterest(s, n) },
				})
				reach := state.ReachableFunctions()
				if *counter != len(reach) {
					problem = fmt.Sprintf("ShouldBuildSummary invoked %d times for %d reachable functions", *counter, len(reach))
				}
				for fn, n := range calls {
					if n != 1 {
						problem = fmt.Sprintf("ShouldBuildSummary invoked %d times for %s", n, fn.String())
					}
				}
			}
			x := &vsched.Explorer{Body: body, Bound: *bound, Horizon: 200000, Env: map[string]int{"NumCPU": 3, "order:*": 0}, MaxExecs: *maxExecs,
				Check: func(e *vsched.Exec) string {
					if problem != "" {
						return problem
					}
					if e.Panic != "" {
						return "panic: " + e.Panic
					}
					if e.Deadlock || e.Leaked > 0 {
						return fmt.Sprintf("deadlock=%v leaked=%d blocked=%v", e.Deadlock, e.Leaked, e.Blocked)
					}
					for _, r := range e.Races {
						if len(r) > 0 {
							rec.Races = append(rec.Races, r)
						}
					}
					if len(e.Races) > 0 {
						return fmt.Sprintf("unsynchronised concurrent access: %v", e.Races)
					}
					return ""
				}}
			ok := x.Explore()
			rec.Execs, rec.Transitions, rec.States, rec.Capped = x.Execs, x.Transitions, len(x.States), x.Capped
			if !ok {
				rec.Violations = append(rec.Violations, x.Violation)
				if x.ViolExec != nil {
					rec.Schedule = x.ViolExec.Choices
				}
			}
			b, _ := json.Marshal(rec)
			w.Write(b)
			w.WriteByte('\n')
			w.Flush()
		}
	}
	fmt.Fprintln(os.Stderr, "DONE")
	return 0
}

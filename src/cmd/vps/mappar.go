package main

import (
	"flag"
	"fmt"
	"reflect"
	"strings"

	"github.com/awslabs/ar-go-tools/internal/funcutil"
	"github.com/awslabs/ar-go-tools/internal/zzverif/vsched"
)

func init() { subcmds["mappar"] = mapparCmd }

type mapparCase struct {
	Len, N      int
	Bound       int
	Execs       int
	Transitions int
	States      int
	Exhaustive  bool // the unbounded exploration completed
	Outcomes    int
	Violation   string   `json:",omitempty"`
	Schedule    []int    `json:",omitempty"`
	Blocked     []string `json:",omitempty"`
}

// mapparCmd explores every schedule of the real (rewritten) MapParallel for small slice lengths and worker counts.
func mapparCmd(args []string) int {
	fs := flag.NewFlagSet("mappar", flag.ExitOnError)
	outp := fs.String("out", "", "result file")
	maxLen := fs.Int("maxlen", 3, "maximum slice length")
	bound := fs.Int("bound", 2, "preemption bound (-1 = unbounded)")
	maxExecs := fs.Int("maxexecs", 200000, "execution cap per case")
	replay := fs.String("replay", "", "replay one case: len,n,choice,choice,...")
	spec := fs.String("cases", "", "explicit cases len,n,bound;...")
	fs.Parse(args)
	var cases []mapparCase
	rc := 0
	run := func(l, n int, prefix []int, explore bool) mapparCase {
		c := mapparCase{Len: l, N: n, Bound: *bound}
		var res []int
		var calls []int
		body := func() {
			a := make([]int, l)
			for i := range a {
				a[i] = i
			}
			calls = make([]int, l)
			res = funcutil.MapParallel(a, func(x int) int {
				vsched.PointAt("f", "f")
				calls[x]++
				return x*10 + 1
			}, n)
		}
		check := func(e *vsched.Exec) string {
			if e.Panic != "" {
				return "panic: " + e.Panic
			}
			if e.Horizon {
				return "step horizon reached (livelock?)"
			}
			if e.Deadlock {
				return fmt.Sprintf("deadlock: %v", e.Blocked)
			}
			if e.Leaked > 0 {
				return fmt.Sprintf("goroutine leak: %v", e.Blocked)
			}
			if len(e.Races) > 0 {
				return fmt.Sprintf("data race: %v", e.Races)
			}
			want := make([]int, l)
			for i := range want {
				want[i] = i*10 + 1
			}
			if len(res) != l || (l > 0 && !reflect.DeepEqual(res, want)) {
				return fmt.Sprintf("result %v differs from the sequential map %v", res, want)
			}
			for i, k := range calls {
				if k != 1 {
					return fmt.Sprintf("f invoked %d times on element %d", k, i)
				}
			}
			return ""
		}
		if !explore {
			e := vsched.Run(body, prefix, 5000+60*l, nil)
			c.Execs = 1
			c.Violation = check(e)
			c.Schedule = e.Choices
			return c
		}
		x := &vsched.Explorer{Body: body, Bound: *bound, Check: check, MaxExecs: *maxExecs}
		ok := x.Explore()
		c.Execs, c.Transitions, c.States = x.Execs, x.Transitions, len(x.States)
		c.Exhaustive = !x.Capped && *bound < 0
		if !ok {
			c.Violation = x.Violation
			c.Schedule = x.ViolExec.Choices
			c.Blocked = x.ViolExec.Blocked
		}
		return c
	}
	if *replay != "" {
		var l, n int
		var prefix []int
		var parts []int
		for _, p := range splitInts(*replay) {
			parts = append(parts, p)
		}
		l, n, prefix = parts[0], parts[1], parts[2:]
		c := run(l, n, prefix, false)
		fmt.Printf("replay len=%d n=%d schedule=%v -> %q\n", l, n, c.Schedule, c.Violation)
		if c.Violation != "" {
			return 1
		}
		return 0
	}
	if *spec != "" {
		// "len,n,bound;len,n,bound;..."
		for _, part := range strings.Split(*spec, ";") {
			v := splitInts(part)
			if len(v) != 3 {
				continue
			}
			*bound = v[2]
			if v[2] == -2 {
				// large slice: the canonical schedule only (capacity / threshold mistakes do not depend on the schedule)
				c := run(v[0], v[1], nil, false)
				c.Bound = -2
				cases = append(cases, c)
				if c.Violation != "" {
					rc = 1
				}
				continue
			}
			c := run(v[0], v[1], nil, true)
			cases = append(cases, c)
			if c.Violation != "" {
				rc = 1
			}
		}
		emit(*outp, cases)
		return rc
	}
	for l := 0; l <= *maxLen; l++ {
		for _, n := range []int{-1, 0, 1, 2, 3} {
			c := run(l, n, nil, true)
			cases = append(cases, c)
			if c.Violation != "" {
				rc = 1
			}
		}
	}
	emit(*outp, cases)
	return rc
}

func splitInts(s string) []int {
	var out []int
	cur, neg, have := 0, false, false
	flush := func() {
		if have {
			if neg {
				cur = -cur
			}
			out = append(out, cur)
		}
		cur, neg, have = 0, false, false
	}
	for _, r := range s {
		switch {
		case r == '-':
			neg = true
		case r >= '0' && r <= '9':
			cur = cur*10 + int(r-'0')
			have = true
		default:
			flush()
		}
	}
	flush()
	return out
}

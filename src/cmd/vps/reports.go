package main

import (
	"bufio"
	"encoding/json"
	"flag"
	"fmt"
	"os"
	"path/filepath"
	"strings"

	"github.com/awslabs/ar-go-tools/analysis/taint"
	"github.com/awslabs/ar-go-tools/internal/zzverif/drv"
	"github.com/awslabs/ar-go-tools/internal/zzverif/gen"
	"github.com/awslabs/ar-go-tools/internal/zzverif/vsched"
)

func init() { subcmds["reports"] = reportsCmd }

type repRec struct {
	Sig         string   `json:"sig"`
	Opts        string   `json:"opts"`
	Execs       int      `json:"execs"`
	Transitions int      `json:"transitions"`
	States      int      `json:"states"`
	Capped      bool     `json:"capped"`
	Violations  []string `json:"violations"`
	Schedule    []int    `json:"schedule,omitempty"`
	Races       []string `json:"races,omitempty"`
}

// reportsCmd: C20 (b)-(d). The whole taint analysis with every subset of the report options runs under the controlled
// scheduler with map race probes on: no unordered conflicting map access, no deadlock, no goroutine left behind when
// Analyze returns, and the summaries report is complete when Analyze returns.
func reportsCmd(args []string) int {
	fs := flag.NewFlagSet("reports", flag.ExitOnError)
	in := fs.String("in", "", "subjects file")
	outp := fs.String("out", "", "output file")
	shard := fs.String("shard", "0/1", "i/n")
	bound := fs.Int("bound", 1, "preemption bound")
	maxExecs := fs.Int("maxexecs", 200, "execution cap per (subject, option set)")
	fs.Parse(args)
	var si, sn int
	fmt.Sscanf(*shard, "%d/%d", &si, &sn)
	if sn == 0 {
		sn = 1
	}
	f, err := os.Open(*in)
	if err != nil {
		return 2
	}
	defer f.Close()
	of, _ := os.Create(*outp)
	defer of.Close()
	w := bufio.NewWriter(of)
	defer w.Flush()
	root, _ := os.MkdirTemp(os.Getenv("VERIF_SCRATCH"), "vps-reports-")
	defer os.RemoveAll(root)
	type optset struct {
		name string
		yaml string
		summ bool
	}
	var sets []optset
	for mask := 0; mask < 8; mask++ {
		for _, od := range []bool{false, true} {
			var names []string
			y := ""
			if mask&1 != 0 {
				names = append(names, "summaries")
				y += "  report-summaries: true\n"
			}
			if mask&2 != 0 {
				names = append(names, "coverage")
				y += "  report-coverage: true\n"
			}
			if mask&4 != 0 {
				names = append(names, "paths")
				y += "  report-paths: true\n"
			}
			if od {
				names = append(names, "od")
				y += "  summarize-on-demand: true\n"
			}
			if len(names) == 0 {
				names = []string{"none"}
			}
			sets = append(sets, optset{strings.Join(names, "+"), y, mask&1 != 0})
		}
	}
	sc := bufio.NewScanner(f)
	sc.Buffer(make([]byte, 1<<20), 1<<24)
	unit := -1
	rc := 0
	for sc.Scan() {
		var sub detSubject
		if json.Unmarshal(sc.Bytes(), &sub) != nil {
			continue
		}
		for _, os_ := range sets {
			unit++
			if unit%sn != si {
				continue
			}
			fmt.Fprintf(os.Stderr, "BEGIN %d %s %s\n", unit, sub.Sig, os_.name)
			rec := repRec{Sig: sub.Sig, Opts: os_.name}
			execNo := 0
			problem := ""
			body := func() {
				problem = ""
				execNo++
				dir := filepath.Join(root, fmt.Sprintf("u%d-e%d", unit, execNo))
				os.MkdirAll(dir, 0o755)
				defer os.RemoveAll(dir)
				l, err := drv.LoadInProcess(sub.Src, gen.AnalysisRT)
				if err != nil {
					problem = "LOADERR " + err.Error()
					return
				}
				y := strings.Replace(drv.Cfg{}.Yaml(), "options:\n", "options:\n"+os_.yaml+"  reports-dir: \""+dir+"\"\n", 1)
				cfg, err := drv.LoadConfig(y)
				if err != nil {
					problem = "config: " + err.Error()
					return
				}
				ar, _ := taint.Analyze(cfg, l.Prog, nil)
				// the state of the report files AT THE MOMENT Analyze returns
				if os_.summ {
					files, _ := filepath.Glob(filepath.Join(dir, "summaries-*.out"))
					if len(files) == 0 {
						problem = "report-summaries is on but no summaries-*.out file exists when Analyze returns"
						return
					}
					b, _ := os.ReadFile(files[0])
					blocks := 0
					for _, line := range strings.Split(string(b), "\n") {
						if strings.HasSuffix(line, ":") && !strings.HasPrefix(line, " ") && !strings.HasPrefix(line, "\t") {
							blocks++
						}
					}
					want := 0
					if ar.State != nil {
						for fn, s := range ar.State.FlowGraph.Summaries {
							if s != nil && fn.Pkg == l.Main {
								want++
							}
						}
					}
					if blocks < want {
						problem = fmt.Sprintf("summaries report incomplete when Analyze returns: %d blocks (%d bytes) for at least %d summaries", blocks, len(b), want)
					}
				}
			}
			x := &vsched.Explorer{Body: body, Bound: *bound, Horizon: 300000, Env: map[string]int{"NumCPU": 3, "order:*": 0, "mapacc": 1}, MaxExecs: *maxExecs,
				Check: func(e *vsched.Exec) string {
					if problem != "" {
						return problem
					}
					if e.Panic != "" {
						return "panic in a goroutine: " + e.Panic[:min(len(e.Panic), 400)]
					}
					if e.Deadlock {
						return fmt.Sprintf("deadlock: %v", e.Blocked)
					}
					if e.Leaked > 0 {
						return fmt.Sprintf("goroutines still blocked after the analysis returned: %v", e.Blocked)
					}
					if len(e.Races) > 0 {
						return fmt.Sprintf("unsynchronised concurrent map access: %v", e.Races[:min(len(e.Races), 3)])
					}
					return ""
				}}
			ok := x.Explore()
			rec.Execs, rec.Transitions, rec.States, rec.Capped = x.Execs, x.Transitions, len(x.States), x.Capped
			if !ok {
				rec.Violations = append(rec.Violations, x.Violation)
				rec.Schedule = x.ViolExec.Choices
				rec.Races = x.ViolExec.Races
				rc = 1
			}
			b, _ := json.Marshal(rec)
			w.Write(b)
			w.WriteByte('\n')
			w.Flush()
		}
	}
	fmt.Fprintln(os.Stderr, "DONE")
	return rc
}

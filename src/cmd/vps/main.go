// Command vps is the schedule-exploration worker (engine S): it is linked against the REWRITTEN copies of the
// repository's concurrent code (overlay-sched.json), so the real MapParallel / analyzer-state initialisation / graph
// building run under the controlled scheduler.
package main

import (
	"encoding/json"
	"fmt"
	"os"
)

var subcmds = map[string]func(args []string) int{}

func main() {
	if len(os.Args) < 2 {
		fmt.Fprintln(os.Stderr, "usage: vps <subcommand> ...")
		os.Exit(2)
	}
	f, ok := subcmds[os.Args[1]]
	if !ok {
		fmt.Fprintln(os.Stderr, "unknown subcommand", os.Args[1])
		os.Exit(2)
	}
	os.Exit(f(os.Args[2:]))
}

func emit(path string, v any) {
	b, _ := json.MarshalIndent(v, "", " ")
	os.WriteFile(path, b, 0o644)
}

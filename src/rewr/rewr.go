// Package rewr is the build-time source transformation of engine S (DESIGN.md §4.2, §11): it rewrites the concurrency
// constructs of selected repository files onto the vsched shims. It is total-or-fail: a construct it does not know
// (select statements, multi-argument go statements with non-trivial arguments, channel ranges over unknown variables)
// is an error, never a silent skip.
package rewr

import (
	"bytes"
	"fmt"
	"go/ast"
	"go/format"
	"go/parser"
	"go/token"
	"strings"

	"golang.org/x/tools/go/ast/astutil"
)

const vschedPath = "github.com/awslabs/ar-go-tools/internal/zzverif/vsched"

// Stats counts the rewritten constructs of one file.
type Stats struct {
	Go, MakeChan, Send, Recv, RangeChan, Close, LenChan, ChanType, SyncSel, AtomicSel, NumCPU int
}

func sel(x, name string) *ast.SelectorExpr {
	return &ast.SelectorExpr{X: ast.NewIdent(x), Sel: ast.NewIdent(name)}
}

func isPkgSel(e ast.Expr, pkg, name string) bool {
	s, ok := e.(*ast.SelectorExpr)
	if !ok {
		return false
	}
	id, ok := s.X.(*ast.Ident)
	return ok && id.Name == pkg && (name == "" || s.Sel.Name == name)
}

// File rewrites one source file. It returns the new text, the statistics and whether anything changed.
func File(filename string, src []byte) ([]byte, Stats, bool, error) {
	var st Stats
	fset := token.NewFileSet()
	f, err := parser.ParseFile(fset, filename, src, parser.ParseComments)
	if err != nil {
		return nil, st, false, err
	}
	// pass 1: channel variables (assigned from make(chan ...))
	chanVars := map[string]bool{}
	ast.Inspect(f, func(n ast.Node) bool {
		as, ok := n.(*ast.AssignStmt)
		if !ok {
			return true
		}
		for i, r := range as.Rhs {
			if c, ok := r.(*ast.CallExpr); ok && len(c.Args) >= 1 {
				if id, ok := c.Fun.(*ast.Ident); ok && id.Name == "make" {
					if _, isChan := c.Args[0].(*ast.ChanType); isChan && i < len(as.Lhs) {
						if l, ok := as.Lhs[i].(*ast.Ident); ok {
							chanVars[l.Name] = true
						}
					}
				}
			}
		}
		return true
	})
	var firstErr error
	fail := func(pos token.Pos, msg string) {
		if firstErr == nil {
			firstErr = fmt.Errorf("%s: %s", fset.Position(pos), msg)
		}
	}
	isChanExpr := func(e ast.Expr) bool {
		id, ok := e.(*ast.Ident)
		return ok && chanVars[id.Name]
	}
	result := astutil.Apply(f, func(c *astutil.Cursor) bool {
		switch n := c.Node().(type) {
		case *ast.SelectStmt:
			fail(n.Pos(), "select statement: no rewrite rule")
		case *ast.CallExpr:
			if id, ok := n.Fun.(*ast.Ident); ok && id.Name == "make" && len(n.Args) >= 1 {
				if ct, ok := n.Args[0].(*ast.ChanType); ok {
					var size ast.Expr = &ast.BasicLit{Kind: token.INT, Value: "0"}
					if len(n.Args) > 1 {
						size = n.Args[1]
					}
					c.Replace(&ast.CallExpr{Fun: &ast.IndexExpr{X: sel("vsched", "MakeChan"), Index: ct.Value}, Args: []ast.Expr{size}})
					st.MakeChan++
					return false
				}
			}
		case *ast.AssignStmt:
			// v, ok := <-c
			if len(n.Lhs) == 2 && len(n.Rhs) == 1 {
				if u, ok := n.Rhs[0].(*ast.UnaryExpr); ok && u.Op == token.ARROW {
					n.Rhs[0] = &ast.CallExpr{Fun: &ast.SelectorExpr{X: u.X, Sel: ast.NewIdent("Recv2")}}
					st.Recv++
				}
			}
		}
		return true
	}, func(c *astutil.Cursor) bool {
		switch n := c.Node().(type) {
		case *ast.GoStmt:
			fl, isLit := n.Call.Fun.(*ast.FuncLit)
			var arg ast.Expr
			if isLit && len(n.Call.Args) == 0 {
				arg = fl
			} else {
				for _, a := range n.Call.Args {
					switch a.(type) {
					case *ast.Ident, *ast.BasicLit, *ast.SelectorExpr:
					default:
						fail(n.Pos(), "go statement with a non-trivial argument: no rewrite rule")
					}
				}
				arg = &ast.FuncLit{Type: &ast.FuncType{Params: &ast.FieldList{}}, Body: &ast.BlockStmt{List: []ast.Stmt{&ast.ExprStmt{X: n.Call}}}}
			}
			c.Replace(&ast.ExprStmt{X: &ast.CallExpr{Fun: sel("vsched", "Go"), Args: []ast.Expr{arg}}})
			st.Go++
		case *ast.SendStmt:
			c.Replace(&ast.ExprStmt{X: &ast.CallExpr{Fun: &ast.SelectorExpr{X: n.Chan, Sel: ast.NewIdent("Send")}, Args: []ast.Expr{n.Value}}})
			st.Send++
		case *ast.UnaryExpr:
			if n.Op == token.ARROW {
				c.Replace(&ast.CallExpr{Fun: &ast.SelectorExpr{X: n.X, Sel: ast.NewIdent("Recv")}})
				st.Recv++
			}
		case *ast.CallExpr:
			if id, ok := n.Fun.(*ast.Ident); ok {
				switch id.Name {
				case "make":
					if len(n.Args) >= 1 {
						if ct, ok := n.Args[0].(*ast.ChanType); ok {
							var size ast.Expr = &ast.BasicLit{Kind: token.INT, Value: "0"}
							if len(n.Args) > 1 {
								size = n.Args[1]
							}
							c.Replace(&ast.CallExpr{Fun: &ast.IndexExpr{X: sel("vsched", "MakeChan"), Index: ct.Value}, Args: []ast.Expr{size}})
							st.MakeChan++
						}
					}
				case "close":
					if len(n.Args) == 1 && isChanExpr(n.Args[0]) {
						c.Replace(&ast.CallExpr{Fun: &ast.SelectorExpr{X: n.Args[0], Sel: ast.NewIdent("Close")}})
						st.Close++
					} else if len(n.Args) == 1 {
						fail(n.Pos(), "close of an expression that is not a known channel variable")
					}
				case "len":
					if len(n.Args) == 1 && isChanExpr(n.Args[0]) {
						c.Replace(&ast.CallExpr{Fun: &ast.SelectorExpr{X: n.Args[0], Sel: ast.NewIdent("Len")}})
						st.LenChan++
					}
				}
			}
			if isPkgSel(n.Fun, "runtime", "NumCPU") {
				c.Replace(&ast.CallExpr{Fun: sel("vsched", "NumCPU")})
				st.NumCPU++
			}
		case *ast.RangeStmt:
			if isChanExpr(n.X) {
				var key ast.Expr = ast.NewIdent("_")
				if n.Key != nil {
					key = n.Key
				}
				if n.Value != nil {
					fail(n.Pos(), "range over a channel with two variables")
				}
				recv := &ast.AssignStmt{Lhs: []ast.Expr{key, ast.NewIdent("vsOk")}, Tok: token.DEFINE,
					Rhs: []ast.Expr{&ast.CallExpr{Fun: &ast.SelectorExpr{X: n.X, Sel: ast.NewIdent("Recv2")}}}}
				brk := &ast.IfStmt{Cond: &ast.UnaryExpr{Op: token.NOT, X: ast.NewIdent("vsOk")},
					Body: &ast.BlockStmt{List: []ast.Stmt{&ast.BranchStmt{Tok: token.BREAK}}}}
				body := &ast.BlockStmt{List: append([]ast.Stmt{recv, brk}, n.Body.List...)}
				c.Replace(&ast.ForStmt{Body: body})
				st.RangeChan++
			}
		case *ast.ChanType:
			// any channel type left (declarations): *vsched.Chan[T]
			c.Replace(&ast.StarExpr{X: &ast.IndexExpr{X: sel("vsched", "Chan"), Index: n.Value}})
			st.ChanType++
		case *ast.SelectorExpr:
			if isPkgSel(n, "sync", "") {
				switch n.Sel.Name {
				case "WaitGroup", "Mutex":
					c.Replace(sel("vsched", n.Sel.Name))
					st.SyncSel++
				default:
					fail(n.Pos(), "sync."+n.Sel.Name+": no shim")
				}
			}
			if isPkgSel(n, "atomic", "") {
				switch n.Sel.Name {
				case "AddUint32", "Int32":
					c.Replace(sel("vsched", n.Sel.Name))
					st.AtomicSel++
				default:
					fail(n.Pos(), "atomic."+n.Sel.Name+": no shim")
				}
			}
		}
		return true
	})
	if firstErr != nil {
		return nil, st, false, firstErr
	}
	changed := st != (Stats{})
	if !changed {
		return src, st, false, nil
	}
	nf := result.(*ast.File)
	astutil.AddImport(fset, nf, vschedPath)
	for _, p := range []string{"sync", "sync/atomic", "runtime"} {
		if !astutil.UsesImport(nf, p) {
			astutil.DeleteImport(fset, nf, p)
		}
	}
	var buf bytes.Buffer
	if err := format.Node(&buf, fset, nf); err != nil {
		return nil, st, false, err
	}
	out := buf.String()
	if !strings.Contains(out, "vsched.") {
		return src, st, false, nil
	}
	return []byte(out), st, true, nil
}

package rewr

import (
	"bytes"
	"fmt"
	"go/ast"
	"go/format"
	"go/token"
	"go/types"
	"path/filepath"
	"strings"

	"golang.org/x/tools/go/ast/astutil"
	"golang.org/x/tools/go/packages"
)

// TypedStats counts the typed rewrites of one file.
type TypedStats struct {
	MapRanges int
	MapWrites int
}

// Typed loads the given packages of the repository with type information and rewrites, in addition to the syntactic
// rules of File, every `for k, v := range m` over a MAP into an iteration over vsched.Iter(m, SITE), the map-order seam.
// It returns file path (relative to repo) -> new content for every changed file.
func Typed(repo string, patterns []string) (map[string][]byte, map[string]Stats, map[string]TypedStats, error) {
	cfg := &packages.Config{Mode: packages.NeedName | packages.NeedFiles | packages.NeedSyntax | packages.NeedTypes | packages.NeedTypesInfo |
		packages.NeedImports | packages.NeedDeps, Dir: repo, Tests: false}
	pkgs, err := packages.Load(cfg, patterns...)
	if err != nil {
		return nil, nil, nil, err
	}
	out := map[string][]byte{}
	sst := map[string]Stats{}
	tst := map[string]TypedStats{}
	for _, p := range pkgs {
		if len(p.Errors) > 0 {
			return nil, nil, nil, fmt.Errorf("package %s: %v", p.PkgPath, p.Errors[0])
		}
		for i, f := range p.Syntax {
			path := p.GoFiles[i]
			rel, _ := filepath.Rel(repo, path)
			if strings.HasSuffix(rel, "_test.go") {
				continue
			}
			n, err := mapRanges(p.Fset, f, p.TypesInfo, rel)
			if err != nil {
				return nil, nil, nil, err
			}
			nw := mapWrites(p.Fset, f, p.TypesInfo, rel)
			n += nw
			var buf bytes.Buffer
			if n > 0 {
				astutil.AddImport(p.Fset, f, vschedPath)
			}
			if err := format.Node(&buf, p.Fset, f); err != nil {
				return nil, nil, nil, err
			}
			// now the syntactic rules on the (possibly already changed) text
			text, st, changed, err := File(rel, buf.Bytes())
			if err != nil {
				return nil, nil, nil, err
			}
			if n > 0 || changed {
				out[rel] = text
				sst[rel] = st
				tst[rel] = TypedStats{MapRanges: n - nw, MapWrites: nw}
			}
		}
	}
	return out, sst, tst, nil
}

func mapRanges(fset *token.FileSet, f *ast.File, info *types.Info, rel string) (int, error) {
	n := 0
	var firstErr error
	astutil.Apply(f, nil, func(c *astutil.Cursor) bool {
		rs, ok := c.Node().(*ast.RangeStmt)
		if !ok {
			return true
		}
		tv, ok := info.Types[rs.X]
		if !ok {
			return true
		}
		if _, isMap := tv.Type.Underlying().(*types.Map); !isMap {
			return true
		}
		if rs.Tok == token.ASSIGN {
			if firstErr == nil {
				firstErr = fmt.Errorf("%s: range over a map assigning to existing variables: no rewrite rule", fset.Position(rs.Pos()))
			}
			return true
		}
		pos := fset.Position(rs.Pos())
		site := fmt.Sprintf("%s:%d", rel, pos.Line)
		n++
		entry := ast.NewIdent(fmt.Sprintf("vsE%d", n))
		var pre []ast.Stmt
		isBlank := func(e ast.Expr) bool {
			if e == nil {
				return true
			}
			id, ok := e.(*ast.Ident)
			return ok && id.Name == "_"
		}
		if !isBlank(rs.Key) {
			pre = append(pre, &ast.AssignStmt{Lhs: []ast.Expr{rs.Key}, Tok: token.DEFINE, Rhs: []ast.Expr{&ast.SelectorExpr{X: entry, Sel: ast.NewIdent("Key")}}})
		}
		okv := ast.NewIdent(fmt.Sprintf("vsOk%d", n))
		var val ast.Expr = ast.NewIdent("_")
		if !isBlank(rs.Value) {
			val = rs.Value
		}
		pre = append(pre, &ast.AssignStmt{Lhs: []ast.Expr{val, okv}, Tok: token.DEFINE,
			Rhs: []ast.Expr{&ast.CallExpr{Fun: &ast.SelectorExpr{X: entry, Sel: ast.NewIdent("Get")}}}})
		pre = append(pre, &ast.IfStmt{Cond: &ast.UnaryExpr{Op: token.NOT, X: okv}, Body: &ast.BlockStmt{List: []ast.Stmt{&ast.BranchStmt{Tok: token.CONTINUE}}}})
		body := &ast.BlockStmt{List: append(pre, rs.Body.List...)}
		iter := &ast.CallExpr{Fun: sel("vsched", "Iter"), Args: []ast.Expr{rs.X, &ast.BasicLit{Kind: token.STRING, Value: fmt.Sprintf("%q", site)}}}
		c.Replace(&ast.RangeStmt{Key: ast.NewIdent("_"), Value: entry, Tok: token.DEFINE, X: iter, Body: body})
		return true
	})
	return n, firstErr
}

// mapWrites inserts a race probe before every statement `m[k] = v` / `m[k] op= v` / `delete(m, k)` on a map.
func mapWrites(fset *token.FileSet, f *ast.File, info *types.Info, rel string) int {
	n := 0
	isMap := func(e ast.Expr) bool {
		tv, ok := info.Types[e]
		if !ok {
			return false
		}
		_, m := tv.Type.Underlying().(*types.Map)
		return m
	}
	probe := func(m ast.Expr, pos token.Pos) ast.Stmt {
		site := fmt.Sprintf("%s:%d", rel, fset.Position(pos).Line)
		return &ast.ExprStmt{X: &ast.CallExpr{Fun: sel("vsched", "MapAcc"), Args: []ast.Expr{m, &ast.BasicLit{Kind: token.STRING, Value: fmt.Sprintf("%q", site)},
			ast.NewIdent("true")}}}
	}
	insertable := func(c *astutil.Cursor) bool {
		switch c.Parent().(type) {
		case *ast.BlockStmt, *ast.CaseClause, *ast.CommClause:
			return c.Index() >= 0
		}
		return false
	}
	astutil.Apply(f, nil, func(c *astutil.Cursor) bool {
		switch st := c.Node().(type) {
		case *ast.AssignStmt:
			if !insertable(c) {
				return true
			}
			for _, l := range st.Lhs {
				if ix, ok := l.(*ast.IndexExpr); ok && isMap(ix.X) {
					if id, ok := ix.X.(*ast.Ident); ok || isSimpleSel(ix.X) {
						_ = id
						c.InsertBefore(probe(ix.X, st.Pos()))
						n++
					}
				}
			}
		case *ast.ExprStmt:
			if !insertable(c) {
				return true
			}
			if call, ok := st.X.(*ast.CallExpr); ok {
				if id, ok := call.Fun.(*ast.Ident); ok && id.Name == "delete" && len(call.Args) == 2 && isMap(call.Args[0]) && (isSimpleSel(call.Args[0]) || isIdent(call.Args[0])) {
					c.InsertBefore(probe(call.Args[0], st.Pos()))
					n++
				}
			}
		}
		return true
	})
	return n
}

func isIdent(e ast.Expr) bool { _, ok := e.(*ast.Ident); return ok }

// isSimpleSel: x.f.g chains of identifiers (side-effect free to evaluate twice).
func isSimpleSel(e ast.Expr) bool {
	switch x := e.(type) {
	case *ast.Ident:
		return true
	case *ast.SelectorExpr:
		return isSimpleSel(x.X)
	}
	return false
}

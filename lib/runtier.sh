#!/bin/bash
# usage: runtier.sh <tier> <timeout> ID...   runs the checks one after the other, logs exit status and wall time
V=/verif; cd $V
tier=$1; to=$2; shift 2
mkdir -p /var/tmp/tier-$tier
for id in "$@"; do
  t0=$(date +%s)
  timeout $to ./run $id $tier > /var/tmp/tier-$tier/$id.log 2>&1
  rc=$?
  echo "$id $tier exit=$rc wall=$(( $(date +%s) - t0 ))s violations=$(grep -c '^VIOLATION' /var/tmp/tier-$tier/$id.log)" >> /var/tmp/tier-$tier/SUMMARY
done

#!/bin/bash
# One-time setup after a fresh restore: build the worker and warm the native ground-truth cache of the quick tier.
set -u
cd /verif
mkdir -p build bin evidence replays
bash lib/build.sh || exit 1
python3 lib/warm.py || exit 1
exit 0

"""/verif/run replay <path>: re-decide one recorded violating case against /repo's current tree, without the explorer
where a direct command exists (generated taint programs), otherwise by re-running the owning check and looking the case
up in its violation list. Exit 1 if the case still violates, 0 if it no longer does."""
import json, os, subprocess, sys
import vlib
V = '/verif'


def main(argv):
    if not argv:
        print('usage: run replay <path>'); return 2
    rec = json.load(open(argv[0]))
    prop, case, detail = rec['property'], rec['case'], rec.get('detail', {})
    print(f'property {prop}\ncase     {case}')
    print(json.dumps(detail, indent=1)[:4000])
    tier = os.environ.get('VERIF_TIER', 'quick')
    sig = detail.get('sig') if isinstance(detail, dict) else None
    if sig and ' | ' in sig and 'truth' in detail:
        # generated taint program: print the program, analyse it under every configuration vector
        vlib.build()
        print('--- program'); print(vlib.vp('show', '-sig', sig).stdout)
        print(f"--- native truth (exhaustive valuations): {detail['truth']}")
        out = vlib.vp('taint-one', '-sig', sig, '-cfgs', 'c01').stdout
        print('--- analysis'); print(out)
        want = set(detail['truth'])
        bad = [l for l in out.splitlines() if not want <= set(l.split('flows=[')[1].split(']')[0].split())]
        print(f'{len(bad)} configuration vectors miss a true flow')
        return 1 if bad else 0
    r = subprocess.run([f'{V}/run', prop, tier], capture_output=True, text=True)
    allp = f'{V}/replays/{prop}/ALL.txt'
    still = os.path.exists(allp) and str(case) in [l.rstrip('\n') for l in open(allp)]
    print(f're-ran ./run {prop} {tier}: exit {r.returncode}; case still violating: {still}')
    return 1 if still else 0

#!/bin/bash
# Runs the repository's pinned test suite in DIR (default: a scratch worktree of /repo's HEAD) and compares the set of
# passing tests with /root/.vp/BASELINE.json (356 tests). usage: baseline.sh [dir] ; prints PASS n/356 and missing names.
set -u
export GOPROXY=off GOSUMDB=off GOTOOLCHAIN=local GOCACHE=${GOCACHE:-/verif/build/gocache}
DIR=${1:-}
CLEAN=0
if [ -z "$DIR" ]; then
  DIR=$(mktemp -d /var/tmp/wt-base-XXXX); rmdir $DIR
  git -C /repo worktree add -q --detach $DIR HEAD || exit 2
  CLEAN=1
fi
OUT=$(mktemp /var/tmp/gotest-XXXX.json)
(cd $DIR && go test -mod=mod -json -vet=off -count=1 -timeout 120m ${BASELINE_OVERLAY:+-overlay $BASELINE_OVERLAY} ./... > $OUT 2>/dev/null)
python3 - "$OUT" <<'PY'
import json, sys
base = set(json.load(open('/root/.vp/BASELINE.json'))['stable_pass'])
ok = set()
for l in open(sys.argv[1]):
    try: e = json.loads(l)
    except Exception: continue
    if e.get('Action') == 'pass' and e.get('Test'):
        ok.add(f"{e['Package']}::{e['Test']}")
missing = sorted(base - ok)
print(f'PASS {len(base & ok)}/{len(base)}')
for m in missing[:40]: print('  MISSING', m)
sys.exit(0 if not missing else 1)
PY
rc=$?
rm -f $OUT
if [ $CLEAN = 1 ]; then git -C /repo worktree remove --force $DIR; fi
exit $rc

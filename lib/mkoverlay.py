#!/usr/bin/env python3
"""Emit the go build overlay: /verif/src/** -> /repo/internal/zzverif/**, /verif/hooks/<pkgpath>__<file> -> /repo/<pkgpath>/<file>.
Optional argv: extra 'repo-relative-path=replacement-file' pairs (mutants, rewritten sources)."""
import json, os, sys
V = '/verif'
rep = {}
for root, _, files in os.walk(f'{V}/src'):
    for f in files:
        if f.endswith('.go'):
            p = os.path.join(root, f)
            rel = os.path.relpath(p, f'{V}/src')
            rep[f'/repo/internal/zzverif/{rel}'] = p
hooks = f'{V}/hooks'
if os.path.isdir(hooks):
    for f in sorted(os.listdir(hooks)):
        if f.endswith('.go') and '__' in f:
            pkg, name = f.rsplit('__', 1)
            rep[f"/repo/{pkg.replace('__', '/')}/{name}"] = os.path.join(hooks, f)
for a in sys.argv[1:]:
    k, v = a.split('=', 1)
    rep[os.path.join('/repo', k)] = v
json.dump({'Replace': rep}, sys.stdout, indent=1)

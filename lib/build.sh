#!/bin/bash
# Rebuilds the worker binary from /repo's current working tree with the verification overlay.
# usage: build.sh [plain|sched]   -> /verif/bin/vp (plain) ; exit 2 on build failure
set -u
export GOFLAGS=-mod=readonly GOPROXY=off GOSUMDB=off GOTOOLCHAIN=local GOCACHE=${GOCACHE:-/verif/build/gocache}
V=/verif
B=$V/${VERIF_BINDIR:-bin}
# builds read /repo: they take a shared lock that lib/withseed.sh holds exclusively while a seeded change is applied
mkdir -p $V/build $B
if [ -z "${VERIF_HOLD_REPO_LOCK:-}" ]; then exec 9>$V/build/repo.lock; flock -s 9; fi
python3 $V/lib/mkoverlay.py ${VERIF_EXTRA_OVERLAY:-} > $V/build/overlay-plain.json || exit 2
cd /repo || exit 2
go build -tags verif -overlay $V/build/overlay-plain.json -o $B/vp ./internal/zzverif/cmd/vp 2> $V/build/build.log
rc=$?
if [ $rc -eq 0 ]; then
  go build -overlay $V/build/overlay-plain.json -o $B/argot ./cmd/argot 2>> $V/build/build.log
  rc=$?
fi
if [ $rc -ne 0 ]; then
  cat $V/build/build.log >&2
  echo "TOOL-ERROR: cannot build worker from /repo's current tree" >&2
  exit 2
fi
exit 0

#!/bin/bash
# usage: withseed.sh <patch.diff> <command...>   applies a seeded change to /repo's working tree, runs the command, restores
# the tree. Holds the repository lock exclusively meanwhile, so that a background (thorough) run cannot build from the
# seeded tree.
V=/verif
mkdir -p $V/build
exec 9>$V/build/repo.lock
flock -x 9
export VERIF_HOLD_REPO_LOCK=1
if [ -n "$(git -C /repo status --porcelain)" ]; then echo "TOOL-ERROR: /repo working tree is not clean" >&2; exit 2; fi
patch=$(readlink -f "$1"); shift
git -C /repo apply "$patch" || { echo "patch does not apply" >&2; exit 2; }
"$@"
rc=$?
git -C /repo checkout -- .
exit $rc

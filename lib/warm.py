#!/usr/bin/env python3
"""Pre-computes the native ground truth used by the quick tiers (depends on the generator only, not on /repo)."""
import sys
sys.path.insert(0, '/verif/lib'); sys.path.insert(0, '/verif/checks')
import vlib, importlib
for name in ['c01', 'c02', 'c16', 'c03', 'c12', 'c13', 'c11']:
    m = importlib.import_module(name)
    if hasattr(m, 'warm'):
        m.warm()

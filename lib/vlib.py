"""Shared orchestration for the checks: building workers from /repo's current tree, native ground truth (cached by
content hash), sharded worker runs with crash attribution, known-finding cores, evidence and replay files."""
import hashlib, json, os, shutil, subprocess, sys, tempfile, time, concurrent.futures as cf

V = '/verif'
NPROC = int(os.environ.get('VERIF_NPROC', '16'))
GOENV = dict(os.environ, GOFLAGS='-mod=readonly', GOPROXY='off', GOSUMDB='off', GOTOOLCHAIN='local',
             GOCACHE=os.environ.get('GOCACHE', f'{V}/build/gocache'),
             GOMAXPROCS=os.environ.get('VERIF_GOMAXPROCS', '2'))
SEED = int(os.environ.get('VERIF_SEED', '0') or 0)
T0 = time.time()


def log(*a):
    print(*a, file=sys.stderr, flush=True)


def tool_error(msg):
    """Nothing can be claimed: exit 2 (never a VIOLATION)."""
    log('TOOL-ERROR:', msg)
    sys.exit(2)


# worker binaries: bin/ for quick, bin-thorough/ for thorough, so that a long thorough run is not disturbed by rebuilds of
# the quick tier (set by ./run; VERIF_BINDIR overrides)
BIN = f"{V}/{os.environ.get('VERIF_BINDIR', 'bin')}"


def build(extra_overlay=None):
    env = dict(GOENV)
    args = ['bash', f'{V}/lib/build.sh']
    if extra_overlay:
        env['VERIF_EXTRA_OVERLAY'] = ' '.join(extra_overlay)
    r = subprocess.run(args, env=env)
    if r.returncode != 0:
        tool_error('build of worker from /repo current tree failed')


def vp(*args, check=True, capture=True):
    r = subprocess.run([f'{BIN}/vp', *args], capture_output=capture, text=True, env=GOENV)
    if check and r.returncode != 0:
        tool_error(f'vp {" ".join(args)} failed: {r.stderr[-2000:]}')
    return r


def scratch(prefix='vp'):
    base = os.environ.get('VERIF_SCRATCH', '/var/tmp')
    os.makedirs(base, exist_ok=True)
    return tempfile.mkdtemp(prefix=prefix + '-', dir=base)


def native_truth(family, bounds, horizon, extra=(), gen_args=(), nshards=None):
    """Returns {idx: result} of the exhaustive native exploration of every program of the family; cached on the
    content hash of the generated native module (depends on the generator and stubs, not on /repo)."""
    h = vp('gen-native', '-family', family, '-bounds', bounds, '-hash', *gen_args).stdout.split()
    hsh, n = h[0], int(h[1])
    cache = f'{V}/build/truth/{family}-{hsh}-h{horizon}{"-" + "-".join(extra) if extra else ""}.jsonl'
    if not os.path.exists(cache):
        os.makedirs(os.path.dirname(cache), exist_ok=True)
        d = scratch('native')
        try:
            vp('gen-native', '-family', family, '-bounds', bounds, '-out', d, *gen_args)
            r = subprocess.run(['go', 'build', '-o', 'native', '.'], cwd=d, env=GOENV, capture_output=True, text=True)
            if r.returncode != 0:
                tool_error('native build failed (generator bug):\n' + r.stderr[-4000:])

            ns = nshards or NPROC

            def shard(i):
                wd = f'{d}/wd{i}'
                os.makedirs(wd, exist_ok=True)
                return subprocess.run([f'{d}/native', f'{i}/{ns}', str(horizon), *extra], capture_output=True, text=True,
                                      timeout=3600, cwd=wd)
            with cf.ThreadPoolExecutor(ns) as ex:
                outs = list(ex.map(shard, range(ns)))
            for o in outs:
                if o.returncode != 0:
                    tool_error('native run failed: ' + o.stderr[-2000:])
            with open(cache + '.tmp', 'w') as f:
                for o in outs:
                    f.write(o.stdout)
            os.rename(cache + '.tmp', cache)
        finally:
            shutil.rmtree(d, ignore_errors=True)
    res = {}
    for l in open(cache):
        r = json.loads(l)
        res[int(r['Name']) if r['Name'].isdigit() else r['Name']] = r
    if len(res) != n:
        os.remove(cache)
        tool_error(f'native truth incomplete: {len(res)} of {n}')
    return res, hsh


def run_shards(sub, args, nshards=None, timeout=7200, max_deaths=6):
    """Runs `vp <sub> <args> -shard i/n -out file` in parallel; returns (records, deaths).
    deaths: list of (last BEGIN line, stderr tail) for workers that died."""
    n = nshards or NPROC
    d = scratch('shards')
    try:
        def one(i):
            recs, deaths, frm = [], [], -1
            for attempt in range(200):
                outp = f'{d}/out{i}.{attempt}.jsonl'
                try:
                    r = subprocess.run([f'{BIN}/vp', sub, *args, '-shard', f'{i}/{n}', '-out', outp, '-from', str(frm)],
                                       stdout=subprocess.DEVNULL, stderr=subprocess.PIPE, text=True, env=GOENV, timeout=timeout)
                    err, rc = r.stderr, r.returncode
                except subprocess.TimeoutExpired as e:
                    err, rc = (e.stderr or b'').decode('utf8', 'replace') + '\nTIMEOUT', -9
                if os.path.exists(outp):
                    for l in open(outp):
                        try:
                            recs.append(json.loads(l))
                        except Exception:
                            pass
                if rc == 0 and 'DONE' in err[-200:]:
                    break
                last = [l for l in err.splitlines() if l.startswith('BEGIN ')]
                if not last:
                    deaths.append(('?', err[-3000:]))
                    break
                deaths.append((last[-1], err[-3000:]))
                frm = int(last[-1].split()[1])
                if len(deaths) >= max_deaths:
                    deaths.append(('ABORTED shard %d after %d worker deaths (remaining cases not run)' % (i, len(deaths)), ''))
                    break
            return recs, deaths
        with cf.ThreadPoolExecutor(n) as ex:
            outs = list(ex.map(one, range(n)))
    finally:
        shutil.rmtree(d, ignore_errors=True)
    recs, deaths = [], []
    for r, dth in outs:
        recs.extend(r)
        deaths.extend(dth)
    return recs, deaths


# ---------------------------------------------------------------------------------------------------------------
# known findings

def load_known(prop):
    p = f'{V}/known_findings.json'
    if not os.path.exists(p):
        return []
    data = json.load(open(p))
    return [k for k in data.get('findings', []) if (k['property'] == prop or prop in k.get('also', [])) and k.get('status', 'open') == 'open']


def explain(known, atoms, cfg=None, extra=None):
    """A failing case is explained iff it contains a listed core (all atoms of the core present, cfg restriction
    satisfied). Returns the matching finding or None."""
    aset = set(atoms)
    ctoks = set(cfg.split('+')) if isinstance(cfg, str) else set(cfg or [])
    for k in known:
        if not set(k['core']).issubset(aset):
            continue
        if k.get('cfg') and not all(c in ctoks for c in k['cfg']):
            continue
        if k.get('cfg_not') and any(c in ctoks for c in k['cfg_not']):
            continue
        return k
    return None


class Report:
    """Collects violations / known findings, writes replay + evidence, prints the interface lines."""

    def __init__(self, prop, tier, level='model_checking'):
        self.prop, self.tier, self.level = prop, tier, level
        shutil.rmtree(f'{V}/replays/{prop}', ignore_errors=True)  # replay files belong to the current run only
        self.known = load_known(prop)
        self.hit_known = {}
        self.violations = []
        self.cov = {}
        self.assumptions = []
        self.unrepro = []

    def fail(self, case_id, atoms, detail, cfg=None):
        k = explain(self.known, atoms, cfg)
        if k is not None:
            self.hit_known.setdefault(k['id'], [k, 0])[1] += 1
            return False
        self.violations.append((case_id, detail))
        return True

    def finish(self, exhaustive=True):
        os.makedirs(f'{V}/evidence', exist_ok=True)
        os.makedirs(f'{V}/replays/{self.prop}', exist_ok=True)
        for kid, (k, n) in sorted(self.hit_known.items()):
            print(f"KNOWN-FINDING: property={self.prop} {kid}: {k['what']} ({n} enumerated cases contain this core)")
        seen = 0
        for i, (cid, detail) in enumerate(self.violations):
            if i >= 25:
                break
            path = f'{V}/replays/{self.prop}/{hashlib.sha1(str(cid).encode()).hexdigest()[:12]}.json'
            json.dump({'property': self.prop, 'case': cid, 'detail': detail}, open(path, 'w'), indent=1)
            print(f'VIOLATION property={self.prop} replay={path}')
            log('  ', cid, json.dumps(detail)[:400])
            seen += 1
        if self.violations:
            open(f'{V}/replays/{self.prop}/ALL.txt', 'w').write(''.join(str(c) + '\n' for c, _ in self.violations))
        if len(self.violations) > seen:
            log(f'  ... and {len(self.violations) - seen} more violating cases')
        cov = dict(self.cov)
        cov.setdefault('exhaustive', bool(exhaustive))
        cov['known_findings_hit'] = {kid: n for kid, (k, n) in self.hit_known.items()}
        if self.unrepro:
            cov['unreproducible_candidates'] = self.unrepro[:20]
        ev = {'property_id': self.prop, 'tier': self.tier, 'seed': SEED, 'level': self.level, 'coverage': cov,
              'assumptions': self.assumptions, 'wall_s': round(time.time() - T0, 2), 'violations': len(self.violations)}
        json.dump(ev, open(f'{V}/evidence/{self.prop}.json', 'w'), indent=1)
        return 1 if self.violations else 0

#!/usr/bin/env python3
"""Greedy attribution of failing cases to cores (atom sets of size 1..2): repeatedly pick the atom set with the highest
fail ratio (then most failures) among still-unexplained failures. usage: cores.py build/last-C01.jsonl [minratio]"""
import json, sys, itertools, collections
rows = [json.loads(l) for l in open(sys.argv[1])]
minratio = float(sys.argv[2]) if len(sys.argv) > 2 else 0.6
fails = [r for r in rows if r['failed']]
print(len(rows), 'cases with flow;', len(fails), 'failing')
tot = collections.Counter()
for r in rows:
    at = sorted(set(r['atoms']))
    for size in (1, 2):
        for c in itertools.combinations(at, size):
            tot[c] += 1
rem = fails
chosen = []
while rem:
    cnt = collections.Counter(); cfgs = collections.defaultdict(set)
    for r in rem:
        at = sorted(set(r['atoms']))
        for size in (1, 2):
            for c in itertools.combinations(at, size):
                cnt[c] += 1; cfgs[c].add(r['cfg'])
    best = None
    for c, n in cnt.items():
        ratio = n / tot[c]
        if ratio < minratio: continue
        k = (-len(c), n)
        if best is None or k > best[0]: best = (k, c)
    if best is None: break
    c = best[1]
    print(f'core {list(c)} explains {cnt[c]} of {tot[c]} containing cases; cfgs={sorted(cfgs[c])}')
    chosen.append(c)
    rem = [r for r in rem if not set(c).issubset(r['atoms'])]
print(len(rem), 'unexplained')
for r in rem[:60]: print('   ', r['sig'], '@', r['cfg'])

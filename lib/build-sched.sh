#!/bin/bash
# Rebuilds the schedule-exploration worker /verif/bin/vps: rewrites the concurrency constructs of the repository's
# CURRENT sources onto the vsched shims (total-or-fail) and builds with the rewritten copies overlaid.
set -u
export GOFLAGS=-mod=readonly GOPROXY=off GOSUMDB=off GOTOOLCHAIN=local GOCACHE=${GOCACHE:-/verif/build/gocache}
V=/verif
B=$V/${VERIF_BINDIR:-bin}
bash $V/lib/build.sh || exit 2
(cd /repo && $B/vp rewrite -outdir $V/build/rw-${VERIF_BINDIR:-bin} -typed ./internal/funcutil ./analysis/dataflow ./analysis/taint ./analysis/backtrace ./analysis ./analysis/lang ./analysis/escape) > $V/build/rewrite-${VERIF_BINDIR:-bin}.json 2> $V/build/rewrite.err
if [ $? -ne 0 ]; then cat $V/build/rewrite.err >&2; echo "TOOL-ERROR: rewriter cannot transform the current tree" >&2; exit 2; fi
EXTRA=$(python3 -c "
import json
d=json.load(open('$V/build/rewrite-${VERIF_BINDIR:-bin}.json'))
print(' '.join(f'{k}={v}' for k,v in d['replace'].items()))")
python3 $V/lib/mkoverlay.py ${VERIF_EXTRA_OVERLAY:-} $EXTRA > $V/build/overlay-sched-${VERIF_BINDIR:-bin}.json || exit 2
cd /repo || exit 2
go build -tags verif -overlay $V/build/overlay-sched-${VERIF_BINDIR:-bin}.json -o $B/vps ./internal/zzverif/cmd/vps 2> $V/build/build-sched.log
if [ $? -ne 0 ]; then cat $V/build/build-sched.log >&2; echo "TOOL-ERROR: cannot build schedule worker" >&2; exit 2; fi
exit 0

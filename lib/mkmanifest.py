#!/usr/bin/env python3
"""Regenerates MANIFEST.json from the table below (single source of truth for claimed checks)."""
import json
CHECKS = {
 'C01': dict(engine='P', technique='bounded-exhaustive program enumeration + exhaustive native execution (all branch valuations) vs real taint analysis',
             text='Every typed step chain within the (k,d) bound is enumerated, run natively under every valuation of its opaque branches with token-carrying data, and every natively observed (source,sink) pair must be reported by the real taint.Analyze under each soundness-preserving configuration; a covering subset also goes through the argot binary.',
             note='small-scope bound (k,d,H); reflect-based native oracle is one-sided; Go toolchain trusted as reference semantics', ref='§6 C01'),

 'C02': dict(engine='P', technique='bounded-exhaustive guard-shape enumeration + exhaustive native execution over all validator outcomes vs real taint analysis',
             text='33 sanitizer/validator guard shapes after every S->S step chain; the native Validate stub answers with the next valuation bit, so the DFS over valuations is exhaustive over validator outcomes; any unvalidated, unsanitised token that reaches a sink natively must be reported.',
             note='small-scope bound; validated-token set is generous (a token validated once counts as validated everywhere), so the oracle can only be weaker, never wrong', ref='§6 C02'),
 'C05': dict(engine='P', technique='exhaustive option-vector enumeration (single deviations + pairs) over generated and repository programs, differential oracle',
             text='Every generated program of the bound and the repository testdata programs (tool load path, own configs) are analysed under every option vector of the tier; the reported pair set must equal the default vector\'s (max-alarms=k: subset, <=k, non-empty iff).',
             note='differential only; pf=nomatch/pf=std vectors are applied to generated programs only (on std-importing programs they make the tool summarise the standard library)', ref='§6 C05'),

 'C07': dict(engine='P', technique='bounded-exhaustive shape enumeration (call graphs x edge realisations, snippet per mechanism, step family) x every analysis entry point, crash/divergence oracle',
             text='All call graphs over main+2 (thorough: +3) functions with every edge realised as direct/closure/interface/function-parameter/method-value call, one snippet per named mechanism and SSA instruction kind, and the C01 step family are pushed through all 14 analysis entry points in worker subprocesses; a panic, a worker death or a case over the wall budget is a violation; an error return is not.',
             note='shows absence of crashes only on the enumerated shapes; divergence judged by a generous wall budget per entry point', ref='§6 C07'),

 'C16': dict(engine='L+P', technique='exhaustive enumeration of structured function bodies; explicit-state (block,stack) reference search over the real SSA CFG + Tarjan SCC; exhaustive native execution',
             text='Every function body with <= n statement nodes (n=4 quick: 9426 functions, n=5 thorough: 214209) is SSA-built; defers.AnalyzeFunction must agree with an independent explicit-state reference on boundedness (defer on a CFG cycle) and on the set of stacks at every normal-exit RunDefers, and every natively executed defer order (all valuations) must be a reported stack (equality for loop-free bodies).',
             note='reference shares go/ssa CFG construction with the implementation (trusted); bound on statement nodes / nesting', ref='§6 C16'),

 'C03': dict(engine='P', technique='bounded-exhaustive program enumeration + exhaustive native execution (origin tokens) vs real backtrace analysis; structural trace validation',
             text='The C01 program space with additional origin calls; for every token natively found in a backtrace-point argument some reported trace of that argument must contain the originating call (eager and on-demand), and every reported trace must end at the entry argument and be step-connected.',
             note='origins = calls only (constants/parameters not tracked natively); connectedness check is liberal', ref='§6 C03'),

 'C17': dict(engine='L+P', technique='invariant evaluation over every summary node/edge after the real analyses + explicit-state search of the built-summary subset lattice (all BuildSummary orders replayed on fresh states)',
             text='I(G) (out<->in with tuple index, call node<->Callsites, closure node<->ReferringMakeClosures, global read/write location sets) is evaluated after taint and backtrace, eager and on-demand, on every program; for programs with few user functions every subset of built summaries is reached through every order: I(G) holds in every state, the canonical graph depends only on the subset, and the top equals the eager graph.',
             note='public accessors only; lattice limited to <=4 (quick) / <=5 (thorough) user functions', ref='§6 C17'),

 'C08': dict(engine='L+P', technique='explicit-state reachability over the SSA value graph of every summarised function (reference model) vs the edges of the real summary',
             text='For every function of every generated program and every function of the listed std packages, a BFS over the SSA operand graph (only the value-computing instruction kinds the property lists) from each parameter / free variable / call result must be matched by a summary edge to every reachable return operand, call argument, closure binding and branch condition; and the real final abstract state (obtained through the post-block callback) must be closed under control-flow propagation: marks attached to a value after an instruction are attached after each of its CFG successors (default and field-sensitive).',
             note='memory operations are not reference edges (one-sided); comma-ok flags and cap() excluded; uninstantiated generic bodies skipped (never reachable under InstantiateGenerics)', ref='§6 C08'),

 'C10': dict(engine='P', technique='exhaustive enumeration of all 0/1 specification matrices (arity<=3, results<=2) x call forms, oracle = the matrix',
             text='Every Args/Rets matrix for every signature of arity <=3 over {string,*string} with <=2 results, as function, method and interface-method contract (plus a contradicting function contract), with a function body implementing the complement flow: every listed flow must be reported and nothing outside the closure of the matrix (eager and on-demand); plus programs in which one function is reachable under two contract keys with different matrices, where each call site must follow its own contract.',
             note='over-approximation inside the transitive closure of the matrix is tolerated', ref='§6 C10'),

 'C09': dict(engine='P', technique='exhaustive enumeration of the predefined-summary table (signature conformance) + one-call programs per (entry, argument position) executed natively with tokens vs real taint analysis (tool load path)',
             text='Every table entry is resolved against a program importing all table packages and every Args/Rets index is checked against the real signature; for every entry invocable with type-directed synthesised arguments and every argument position a one-call program carries a token in that argument only: every natively observed flow into a result, a pointer-like argument or the receiver must be reported when the summary is applied.',
             note='string-like token carriers only; not-invocable entries listed in the evidence; net/ and crypto/ entries: signature conformance only (analysing a program importing net/http exceeds the 62 GB of the sandbox)', ref='§6 C09'),

 'C12': dict(engine='P', technique='bounded-exhaustive enumeration of dispatch-form sequences + exhaustive native execution with a dynamic call-stack recorder vs pointer call graph / ResolveCallee',
             text='All sequences of <=2 hops over 35 dispatch forms (incl. interface bound method values and interface method expressions) (thorough: plus all 3-hop sequences over 13 core forms); every natively executed function must be in the reachable set and every dynamic caller->callee transfer must have a call-graph path through synthetic wrappers only - in the call graph of the analyzer state and in the stand-alone ComputeCallgraph(PointerAnalysis) graph - and be contained in the dataflow callee resolution.',
             note='function-granular matching (not per call-site line); small-scope bound on hops', ref='§6 C12'),
 'C18': dict(engine='P', technique='same dispatch enumeration + native execution vs FindReachable under all four root selections; inclusion and monotonicity clauses',
             text='Every natively executed function must be reported by FindReachable (all roots); every function reachable in the pointer call graph must be reported; the reported set is within all program functions and shrinks monotonically when roots are excluded.',
             note='-nomain selections demand nothing natively; CLI json output not compared', ref='§6 C18'),

 'C19': dict(engine='P', technique='exhaustive product go-statement form x recovery form; generator facts validated by one native process run per cell (crash trace of the panicking goroutine)',
             text='All 16 go-statement forms x 10 recovery forms, plus the launched function placed in a library package under 90 import paths that resemble excluded packages x 4 recovery forms (520 cells): the entry function must be reported with a creation site whenever it does not itself defer a function that calls recover; each cell is also executed natively in its own process and the crash trace (or survival) validates the generator fact; an unrelated -exclude entry must not change the report.',
             note='main package only; spurious reports not judged', ref='§6 C19'),

 'C20': dict(engine='S', technique='stateless DFS over schedules of the real (mechanically rewritten) code under a controlled scheduler with iterative preemption bounding',
             text='lib/build-sched.sh rewrites the concurrency constructs of the current sources onto the vsched shims and links the rewritten MapParallel into the worker; every interleaving up to the preemption bound (and the unbounded space for the smallest cases) is executed for slice lengths <=3 and worker counts <=3, and large lengths around powers of two (up to 8210, thorough 65537) run under the canonical schedule: result equals the sequential map in input order, f invoked exactly once per element, no deadlock, leak or panic. (b)-(d): the whole taint analysis (three initialisation goroutines, parallel summary pass, report writer) runs under the scheduler for all 16 subsets of report options x eager/on-demand with vector-clock race probes on every map read/write: no unordered conflicting map access, no deadlock/leak, summaries report complete at the moment Analyze returns.',
             note='race probes on map reads/writes only (struct fields, slice elements not probed); whole-analysis exploration capped per option set; sequentially consistent scheduler', ref='§6 C20'),

 'C15': dict(engine='L', technique='explicit-state BFS over escape graphs built with the real AddEdge/MergeNodeStatus (lattice laws on all pairs/triples), enumerated weakenings for monotonicity of the real transfer function, explicit-state search over all worklist orders of the real ProcessBlock',
             text='(a) all graphs within d operations of the empty graph over 3-4 node universes: idempotence, commutativity, upper bound, absorption on all pairs, associativity on triples, with the real Merge/LessEqual/Matches; (b) T(g)<=T(w) for the fixpoint graph g at every instruction of every summarised function and every well-typed one-step (thorough: two-step) weakening w; (c) every worklist order of the block-level iteration reaches the tool\'s fixpoint.',
             note='hook file analysis/escape/zz_verif.go is overlay-added (build tag verif); whole-program worklist orders not explored', ref='§6 C15'),

 'C13': dict(engine='P+S', technique='exhaustive enumeration of concurrent subjects (mechanism x placement x sync x binding) + stateless DFS over all interleavings of their shim rendering under the controlled scheduler (preemption-bounded) vs real taint analysis with escape analysis',
             text='Every (source,sink) pair observed in some explored interleaving of a 2-3 goroutine subject must be reported as a taint flow or as an escape of that source by the analysis of the plain rendering with use-escape-analysis.',
             note='preemption bound 2 (quick) / 4 (thorough), most subjects exhausted; -race conformance pass not implemented', ref='§6 C13'),
 'C14': dict(engine='P+S', technique='same exploration; per-access (line, goroutine, location) log vs instruction locality obtained through the public escape interface',
             text='A line whose memory instructions are all classified local (nil rationale in the arbitrary context of its function) must never access a location that another goroutine has already accessed in the same explored execution.',
             note='observed sharing, not reachability (weaker, one-sided); arbitrary contexts only', ref='§6 C14'),

 'C11': dict(engine='P', technique='bounded-exhaustive enumeration of pointer-operation sequences + exhaustive native execution with object-identity probes vs points-to queries of the real pointer analysis',
             text='Every sequence of <=2 (thorough <=3) operations over a 35-operation pointer alphabet, all valuations: probes of the same static type that saw the same object in one execution must MayAlias, and the marked allocation of a probed object must be a label of its points-to set.',
             note='values without a registered query are not judged (counted); small-scope bound', ref='§6 C11'),

 'C04': dict(engine='P', technique='exhaustive product role x call form x specification pattern vector with decoy sites; independent reference matcher (plain regexp on generator facts) vs the roles the real analysis assigns',
             text='7875 call cells (4 roles x up to 14 call forms, incl. function values with several possible callees, x 225 pattern vectors), three call sites each (target, similarly named function, same method on another receiver), plus 2644 identifier-kind cells (allocation / field read / field store / channel receive / value-match x forms x package-type-field pattern vectors, with decoy fields and types): the reference says matched/unmatched per site and the reported flows of a skeleton program reveal whether the tool treated the site in the role; both missed and spurious matches are violations.',
             note='receiver patterns on interface calls and type patterns whose verdict depends on the pointer prefix are unjudged; interface identifiers and the backtrace-point role not covered', ref='§6 C04'),

 'C06': dict(engine='S', technique='stateless DFS over worker schedules (preemption-bounded, per NumCPU answer) and enumeration of map-iteration-order assignments on the real analyzer, rewritten with types onto a controlled scheduler and a map-order seam',
             text='The whole taint and backtrace analyses (real code; 275 map ranges and all concurrency constructs mechanically rewritten) run under the controlled scheduler: the baseline is replayed twice, then every schedule within the preemption bound for 2, 3 and 4 workers and every single relevant map site flipped to descending / rotated (plus all sites) must give the same canonical flows/escapes/trace endpoints as the baseline; under max-alarms=k the kept flows must number min(k, |untruncated|) and lie inside the untruncated set.',
             note='map orders limited to three policies per site; schedule exploration capped per worker count in quick; internal/pointer not rewritten; error message texts not compared', ref='§6 C06'),
}
NA = []
def main():
    checks = []
    for pid, c in sorted(CHECKS.items()):
        checks.append(dict(property_id=pid, quick_cmd=f'./run {pid} quick', thorough_cmd=f'./run {pid} thorough',
                           evidence_file=f'/verif/evidence/{pid}.json', replay_cmd_template='./run replay {path}',
                           engine=c['engine'], level_claimed=dict(category='model_checking', text=c['text'], design_ref=c['ref']),
                           level_note=c['note'], technique=c['technique']))
    m = dict(version=1, setup_cmd='bash lib/setup.sh',
             hooks=dict(guard='verif', enable='go build -tags verif -overlay /verif/build/overlay-plain.json (hook files are overlay-added from /verif/hooks; nothing is committed to /repo)',
                        baseline_off_cmd='cd /repo && go test -vet=off -count=1 ./...', source_commits=[], add_only=True),
             engines=[dict(name='P', path='/verif/src/gen /verif/src/drv /verif/src/cmd/vp', serves_properties=sorted(k for k, c in CHECKS.items() if 'P' in c['engine']), kind_free_text='program-space explorer: bounded-exhaustive generator + exhaustive native execution + real analyzer driver'),
                      dict(name='S', path='/verif/src/vsched', serves_properties=sorted(k for k, c in CHECKS.items() if 'S' in c['engine']), kind_free_text='stateless schedule explorer (cooperative scheduler, iterative preemption bounding) over the real code'),
                      dict(name='L', path='/verif/src/ref', serves_properties=sorted(k for k, c in CHECKS.items() if 'L' in c['engine']), kind_free_text='explicit-state reference models driven against the real functions')],
             checks=checks, not_applicable=NA,
             notes='All checks rebuild their worker from /repo\'s current tree (lib/build.sh). Known findings: /verif/known_findings.json.')
    json.dump(m, open('/verif/MANIFEST.json', 'w'), indent=1)
if __name__ == '__main__':
    main()

#!/bin/bash
# Regression of the machinery against the recorded property-breaking changes (/verif/seeded/*): applies each patch to
# /repo's working tree, runs the checks that are expected to fire (quick tier), restores the tree.
# usage: seedcheck.sh [seed-dir-name ...]      (must not run concurrently with other checks: it edits /repo)
V=/verif
cd $V
if [ -n "$(git -C /repo status --porcelain)" ]; then echo "TOOL-ERROR: /repo working tree is not clean" >&2; exit 2; fi
seeds="$@"; [ -z "$seeds" ] && seeds=$(ls seeded)
rc=0
for s in $seeds; do
  d=$V/seeded/$s
  for c in $(jq -r '.checks_expected_to_fire[]' $d/meta.json); do
    out=$(lib/withseed.sh $d/patch.diff ./run $c quick 2>&1); code=$?
    n=$(echo "$out" | grep -c '^VIOLATION')
    if [ $code -eq 1 ] && [ $n -gt 0 ]; then echo "SEED $s: $c fires ($n VIOLATION lines shown)"; else echo "SEED $s: $c MISSED (exit $code)"; rc=1; fi
  done
done
sh $V/lib/build.sh
exit $rc

"""C01 — every explicit source→sink flow is reported (engine P, DESIGN.md §6 C01)."""
import sys
sys.path.insert(0, '/verif/lib')
import vlib, taintfam

TIERS = {
    'quick': dict(bounds='k2d0+k1d1', cfgs='c01q', horizon=6, cli=24),
    'thorough': dict(bounds='k2d0+k1d1', cfgs='c01', horizon=8, cli=120),
}


def warm():
    t = TIERS['quick']
    vlib.native_truth('taint', t['bounds'], t['horizon'])


def main(tier):
    return taintfam.run('C01', 'taint', TIERS[tier], tier)

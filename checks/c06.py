"""C06 — analysis results are deterministic (engine S on the REAL, mechanically rewritten analyzer).
lib/build-sched.sh rewrites, with type information, every `range` over a map in the analyzer packages (275 sites) onto
the order seam vsched.Iter (keys sorted by a structural key, then permuted by the policy the explorer assigns to the
site) and every concurrency construct onto the controlled scheduler. Owned sources of nondeterminism: (i) interleavings
of the parallel summary pass and of the three state-initialisation goroutines, (ii) worker count through the NumCPU
answer {1,3,4}, (iii) iteration order of every map range. Per subject and configuration: the baseline run is replayed
twice (identical scheduling-point trace required); all schedules with <= p preemptions for each worker count; every
relevant map site (>= 2 keys) deviating alone to descending and to rotate-by-one, plus all-descending and all-rotated.
Oracle: the canonical result (flows, escapes, error) of every explored execution equals the baseline's."""
import json, os, subprocess, sys
import concurrent.futures as cf
sys.path.insert(0, '/verif/lib'); sys.path.insert(0, '/verif/checks')
import vlib
from vlib import V
import c20

TIERS = {'quick': dict(fams=[('snippets', '')], cfgs='default,fs,od,esc,bt,bt+od,ma1,md8,md9,md10,md11,md12,md13,md14,md15,md16', schedcfgs='default,bt', bound=1, maxexecs=120),
         'thorough': dict(fams=[('snippets', ''), ('taint', 'k1d0')], cfgs='default,fs,od,esc,fs+od,bt,bt+od,ma1,ma2,md8,md9,md10,md11,md12,md13,md14,md15,md16', schedcfgs='default,bt', bound=2, maxexecs=1000)}


def main(tier):
    t = TIERS[tier]
    rep = vlib.Report('C06', tier)
    c20.build_sched()
    subj = f'{V}/build/c06-subjects.jsonl'
    open(subj, 'w').close()
    for fam, bounds in t['fams']:
        tmp = subj + '.part'
        vlib.vp('dump-subjects', '-family', fam, '-bounds', bounds or 'k1d0', '-out', tmp)
        open(subj, 'a').write(open(tmp).read())
        os.remove(tmp)
    n = vlib.NPROC

    def shard(i):
        out = f'{V}/build/c06-{i}.jsonl'
        r = subprocess.run([f'{vlib.BIN}/vps', 'determinism', '-in', subj, '-out', out, '-shard', f'{i}/{n}', '-bound', str(t['bound']),
                            '-maxexecs', str(t['maxexecs']), '-cfgs', t['cfgs'], '-schedcfgs', t['schedcfgs']],
                           stdout=subprocess.DEVNULL, stderr=subprocess.PIPE, text=True, env=vlib.GOENV, timeout=14400)
        recs = [json.loads(l) for l in open(out)] if os.path.exists(out) else []
        return recs, r.returncode, r.stderr[-1500:]
    recs = []
    with cf.ThreadPoolExecutor(n) as ex:
        for rs, rc, err in ex.map(shard, range(n)):
            recs += rs
            if rc not in (0, 1) or 'DONE' not in err[-100:]:
                rep.fail('determinism worker died', ['death'], dict(stderr=err))
    execs = trans = states = dev = ties = unstable = capped = 0
    samples = []
    for r in recs:
        execs += r['execs']; trans += r['transitions']; states += r['states']; dev += r['preempted']; ties += r['ties']
        unstable += bool(r['unstable_trace']); capped += bool(r['capped'])
        for v in r.get('violations') or []:
            kind = 'order' if v.startswith('map order') else ('sched' if 'schedule' in v else 'other')
            rep.fail(f"{r['sig']} @ {r['cfg']}: {v[:160]}", r['atoms'] + ['cfg:' + r['cfg'], 'kind:' + kind], dict(sig=r['sig'], cfg=r['cfg'], violation=v, baseline=r['baseline']))
        if len(samples) < 5 and r['cfg'] == 'default' and len(samples) * 15 < len(recs):
            samples.append(dict(subject=r['sig'], cfg=r['cfg'], scheduling_points=r['points'], schedules=r['sched_execs'], map_order_runs=r['order_execs'],
                                relevant_map_sites=r['relevant_sites'], baseline=r['baseline']))
    rw = json.load(open(f"{V}/build/rewrite-{os.environ.get('VERIF_BINDIR', 'bin')}.json"))
    rep.cov = dict(states=max(states, 1), transitions=max(trans, 1), traces_validated_against_impl=execs,
                   evaluations=execs, distinct_nontrivial=dev,
                   rule='evaluation = one controlled execution of the whole taint analysis (real code, rewritten build); non-trivial = executions with '
                        '>= 1 preemption or >= 1 deviating map site; states = distinct scheduling-point prefixes',
                   subjects_x_configs=len(recs), preemption_bound=t['bound'], schedule_cap_per_worker_count=t['maxexecs'], runs_hitting_the_cap=capped,
                   unstable_baseline_traces=unstable, stable_key_ties=ties, map_range_sites_rewritten=sum(v['MapRanges'] for v in rw.get('typed', {}).values()),
                   samples=samples)
    rep.assumptions = ['map orders: ascending baseline; one relevant site deviating (descending, rotate-1) + all-descending + all-rotated; not all permutations',
                       'internal/pointer is not rewritten (vendored); uncontrolled nondeterminism there would show up as unstable_baseline_traces',
                       'error message texts are not compared (only whether an error was returned); graph-node ids in panic messages are normalised (process-global counter); schedule exploration is capped per worker count (see runs_hitting_the_cap)']
    return rep.finish(exhaustive=capped == 0)

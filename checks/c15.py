"""C15 — escape graphs form a join-semilattice, transfer functions are monotone, block fixpoints are order-independent
(engine L, explicit-state, on the REAL functions through an overlay-added hook file analysis/escape/zz_verif.go).
(a) all graphs reachable from the empty graph by <= d real AddEdge / MergeNodeStatus operations over a small node
universe (BFS, canonical hashing): idempotence, commutativity, upper bound and absorption on ALL pairs, associativity on
all triples of the smaller layer; join = real Merge, order = real LessEqual, equality = real Matches.
(b) for every instruction of every summarised function of the subject programs: T(g) <= T(w) for the fixpoint graph g
and every well-typed weakening w of g (one more internal edge / one raised status; thorough: two steps).
(c) for every function with few blocks: explicit-state search over ALL worklist orders of the block-level chaotic
iteration with the real ProcessBlock: every terminal state equals the fixpoint of the tool's own order."""
import json, os, subprocess, sys
sys.path.insert(0, '/verif/lib')
import vlib
from vlib import V

TIERS = {'quick': dict(universes=[('var,alloc,param', 3, 1), ('var,alloc,load,global', 2, 1)], fams=[('snippets', ''), ('taint', 'k1d0'), ('dispatch', 'd1')], weaken=1, maxblocks=6),
         'thorough': dict(universes=[('var,alloc,param', 3, 2), ('var,alloc,param,load', 3, 1), ('var,alloc,load,global', 3, 1)],
                          fams=[('snippets', ''), ('taint', 'k1d1'), ('dispatch', 'd2'), ('cg2d1', '')], weaken=2, maxblocks=8)}


def main(tier):
    t = TIERS[tier]
    rep = vlib.Report('C15', tier)
    vlib.build()
    states = ops = pairs = triples = incomp = 0
    samples = []
    import concurrent.futures as cf

    def lat(u):
        uni, depth, td = u
        out = f'{V}/build/esclat-{uni.replace(",", "_")}.json'
        r = subprocess.run([f'{vlib.BIN}/vp', 'esclat', '-universe', uni, '-depth', str(depth), '-tripledepth', str(td), '-out', out],
                           capture_output=True, text=True, env=vlib.GOENV, timeout=7200)
        if r.returncode != 0 or not os.path.exists(out):
            return None, r.stderr[-1500:]
        return json.loads(open(out).read()), ''
    with cf.ThreadPoolExecutor(len(t['universes'])) as ex:
        for (res, err), u in zip(ex.map(lat, t['universes']), t['universes']):
            if res is None:
                rep.fail(f'lattice worker died for universe {u[0]}', ['death', 'part:a'], dict(stderr=err))
                continue
            states += res['states']; ops += res['ops']; pairs += res['pairs']; triples += res['triples']; incomp += res['incomparable_pairs']
            for v in res.get('violations') or []:
                rep.fail(f'lattice law [{u[0]}]: {v[:160]}', ['part:a', 'law:' + v.split(':')[0]], dict(universe=u[0], violation=v))
            samples += [dict(universe=u[0], graph=s) for s in (res.get('samples') or [])[:2]]
    mono = ostates = otrans = funcs = capped = 0
    for fam, bounds in t['fams']:
        recs, deaths = vlib.run_shards('escfun', ['-family', fam, '-bounds', bounds or 'k1d0', '-weaken', str(t['weaken']), '-maxblocks', str(t['maxblocks'])])
        for begin, tail in deaths:
            rep.fail('worker-death ' + begin, ['death', 'part:bc'], dict(begin=begin, tail=tail[-800:]))
        for r in recs:
            if r.get('load_err'):
                vlib.tool_error(f"subject does not load: {r['sig']}: {r['load_err']}")
            if r.get('panic'):
                rep.fail(r['sig'] + ' / panic', r['atoms'] + ['panic'], dict(sig=r['sig'], panic=r['panic'][:1200]))
            mono += r['mono_instances']; ostates += r['order_states']; otrans += r['order_transitions']; funcs += r['functions']; capped += r['order_capped']
            for v in r.get('viol') or []:
                part = 'part:c' if 'worklist order' in v else 'part:b'
                rep.fail(f"{r['sig']}: {v[:140]}", r['atoms'] + [part], dict(sig=r['sig'], violation=v))
    rep.cov = dict(states=states + ostates, transitions=ops + otrans, traces_validated_against_impl=funcs,
                   evaluations=pairs + triples + mono, distinct_nontrivial=incomp,
                   rule='evaluations = lattice-law instances (pairs + triples) + monotonicity instances (g, weakening); non-trivial = pairs (g,h) '
                        'with neither g<=h nor h<=g; states = lattice graphs + (block-end graphs, worklist) states of the order search; '
                        'traces_validated_against_impl = functions whose every worklist order was compared with the tool\'s fixpoint',
                   lattice_states=states, lattice_pairs=pairs, lattice_triples=triples, monotonicity_instances=mono,
                   order_states=ostates, order_transitions=otrans, functions=funcs, order_searches_capped=capped, samples=samples)
    rep.assumptions = ['node universes of 3-4 nodes, depth-bounded reachability from the empty graph', 'weakenings restricted to well-typed graphs (the tool\'s own TypecheckEscapeGraph)',
                       'whole-program (function worklist) order independence is not explored; callee summaries are fixed at their final value']
    return rep.finish(exhaustive=capped == 0)

"""C02 — sanitizers and validators only suppress flows that really pass through them (engine P, DESIGN.md §6 C02).
Alphabet: 33 guard shapes (gen.Guards) after every S->S step chain; native Validate1/ValidateE1 answer with the next
valuation bit and mark the tokens of their argument validated; the native sink records only unvalidated tokens."""
import sys
sys.path.insert(0, '/verif/lib')
import vlib, taintfam

TIERS = {
    'quick': dict(bounds='k1d0', cfgs='c02', horizon=6, cli=33),
    'thorough': dict(bounds='k2d0+k1d1', cfgs='c02', horizon=8, cli=66),
}


def warm():
    t = TIERS['quick']
    vlib.native_truth('guard', t['bounds'], t['horizon'])


def main(tier):
    return taintfam.run('C02', 'guard', TIERS[tier], tier,
                        rule_extra='; flows are counted only for tokens that no successful validator call has seen and '
                                   'that did not pass through a sanitizer (exhaustive over validator outcomes)')

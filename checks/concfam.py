"""Shared driver for the concurrent-subject family (C13, C14)."""
import sys
sys.path.insert(0, '/verif/lib')
import vlib

TIERS = {'quick': dict(bound=2), 'thorough': dict(bound=4)}


def warm():
    vlib.native_truth('conc', 'k1d0', TIERS['quick']['bound'])


def load(tier):
    t = TIERS[tier]
    vlib.build()
    truth, thash = vlib.native_truth('conc', 'k1d0', t['bound'])
    recs, deaths = vlib.run_shards('conc', [])
    return t, truth, thash, recs, deaths

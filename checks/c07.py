"""C07 — the analyses terminate without crashing on every well-typed program (engine P).
Alphabet: call-graph shapes (all digraphs on f,g[,h] reachable from main, every edge realised as direct call / closure /
interface method / function parameter / method value, self-loops allowed) + snippet programs per mechanism (recursive
data, defers, generics, bodyless functions, every SSA instruction kind) + the C01 step family. Every analysis entry
point (taint x5 configs, backtrace x2, escape, reachability x4, defers, may-panic) must return: no panic, no worker
death, no divergence (per-case watchdog)."""
import json, re, sys
sys.path.insert(0, '/verif/lib')
import vlib

TIERS = {
    'quick': dict(fams=[('shapes2', ''), ('taint', 'k1d0')], budget=60),
    'thorough': dict(fams=[('shapes3e5', ''), ('taint', 'k2d0+k1d1'), ('guard', 'k1d0')], budget=120),
}


def sig_of_panic(o):
    """Root-cause signature of a panic: message (numbers stripped) + first analyzer function below the panic
    (function name, not line number, so that unrelated edits to the file do not change the key)."""
    msg = re.sub(r'0x[0-9a-f]+|\d+', '#', o.get('panic', ''))[:80]
    frame = ''
    lines = o.get('stack', '').splitlines()
    for i, line in enumerate(lines):
        m = re.match(r'\s*(/repo/[^\s]+\.go):(\d+)', line)
        if m and 'zzverif' not in m.group(1) and i > 0:
            fn = lines[i - 1].strip()
            fn = re.sub(r'\(.*$', '', fn) if not fn.startswith('github.com/awslabs/ar-go-tools/') else re.sub(r'\([^()]*\)$', '', fn)
            frame = fn.replace('github.com/awslabs/ar-go-tools/', '')
            break
    return msg, frame


def main(tier):
    t = TIERS[tier]
    rep = vlib.Report('C07', tier)
    vlib.build()
    nprog = evals = cyc = 0
    samples, roots = [], {}
    deaths_all = 0
    slowest = (0, '')
    for fam, bounds in t['fams']:
        recs, deaths = vlib.run_shards('crash', ['-family', fam, '-bounds', bounds or 'k1d0', '-budget', str(t['budget'])])
        for r in recs:
            nprog += 1
            if r.get('load_err'):
                vlib.tool_error(f"subject does not type-check: {r['sig']}: {r['load_err']}")
            if any(a.startswith('self:') or a.startswith('snip:rec') for a in r['atoms']) or 'c.rec' in r['atoms']:
                cyc += 1
            for o in r['outcomes']:
                evals += 1
                if o['ms'] > slowest[0]:
                    slowest = (o['ms'], f"{r['sig']} / {o['name']}")
                if o.get('panic'):
                    msg, frame = sig_of_panic(o)
                    roots.setdefault((msg, frame), 0)
                    roots[(msg, frame)] += 1
                    rep.fail(f"{r['sig']} / {o['name']}", r['atoms'] + ['an:' + o['name'], 'an:' + o['name'].split('+')[0], 'at:' + frame],
                             dict(sig=r['sig'], analysis=o['name'], panic=o['panic'], at=frame, stack=o.get('stack', '')[:800]))
            if len(samples) < 5 and r['idx'] % 97 == 3:
                samples.append(dict(sig=r['sig'], outcomes=[(o['name'], 'panic' if o.get('panic') else ('err' if o.get('err') else 'ok')) for o in r['outcomes']]))
        for begin, tail in deaths:
            deaths_all += 1
            parts = begin.split(' ', 2)
            sig = parts[2] if len(parts) == 3 else begin
            atoms = []
            for line in tail.splitlines():
                if line.startswith('ATOMS '):
                    try:
                        atoms = json.loads(line[6:])
                    except Exception:
                        pass
            m = re.search(r'TIMEOUT \d+ (\S+)', tail[-300:])
            if m:
                kind, an = f'no result within {t["budget"]} s (divergence watchdog)', m.group(1)
                atoms += ['death:timeout']
            else:
                kind, an = 'worker death (panic in an analyzer goroutine / fatal error)', '?'
                atoms += ['death:crash']
            rep.fail(f'{sig} / {an} / {kind}', atoms + ['an:' + an, 'an:' + an.split('+')[0]],
                     dict(sig=sig, analysis=an, kind=kind, tail=tail[-1200:]))
    rep.cov = dict(
        states=nprog, transitions=evals, traces_validated_against_impl=0, evaluations=evals, distinct_nontrivial=cyc,
        rule='case = (program, analysis entry point); non-trivial = program with a cycle in its call graph or type graph '
             '(self edge, recursive data snippet, recursive helper)',
        families=[f for f, _ in t['fams']], budget_s=t['budget'], worker_deaths=deaths_all,
        distinct_panic_roots=[dict(msg=m, at=f, cases=n) for (m, f), n in sorted(roots.items(), key=lambda x: -x[1])],
        slowest_ms=slowest[0], slowest_case=slowest[1], samples=samples)
    rep.assumptions = ['absence of crashes/divergence is shown on the enumerated shapes only', 'an error return is not a violation',
                       'divergence = a case exceeding the wall budget (>1000x its siblings)']
    return rep.finish(exhaustive=True)

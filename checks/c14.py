"""C14 — an instruction classified as thread-local never touches shared memory (engines P + S).
Same subjects and exploration as C13. Analysis side (public interface): ComputeArbitraryContext +
ComputeInstructionLocalityAndCallsites for main, every goroutine entry function and every closure; a source line is
CLAIMED LOCAL when every memory instruction on it has a nil rationale. Native side: every memory/channel access logs
(plain line, goroutine, location) at a scheduling point. Violation: a claimed-local line accesses a location that
another goroutine has already accessed in the same execution (objects are kept alive, so equal address = same object);
since all interleavings are explored, both orders of a racy pair are seen."""
import sys
sys.path.insert(0, '/verif/lib'); sys.path.insert(0, '/verif/checks')
import vlib, concfam


def warm():
    concfam.warm()


def main(tier):
    rep = vlib.Report('C14', tier)
    t, truth, thash, recs, deaths = concfam.load(tier)
    for begin, tail in deaths:
        rep.fail('worker-death ' + begin, ['death'], dict(begin=begin, tail=tail[-800:]))
    execs = trans = states = claims = shared_total = 0
    samples = []
    for r in sorted(recs, key=lambda r: r['idx']):
        if r.get('load_err'):
            vlib.tool_error(f"subject does not load: {r['sig']}: {r['load_err']}")
        nat = truth[r['idx']]
        execs += nat['Execs']; trans += nat['Transitions']; states += nat['States']
        shared = {int(x) for x in (nat['SharedLines'] or [])}
        shared_total += len(shared)
        local = set(r['local_lines'] or [])
        acc = {int(k): v for k, v in (r.get('acc_lines') or {}).items()}
        for ln in sorted(acc):
            if ln in local:
                claims += 1
                if ln in shared:
                    rep.fail(f"{r['sig']} / line {ln} `{acc[ln]}` is classified local but touches memory another goroutine accessed",
                             r['atoms'] + ['local-shared', 'stmt:' + acc[ln].split('=')[0].strip()],
                             dict(sig=r['sig'], line=ln, statement=acc[ln], local_lines=sorted(local), shared_lines=sorted(shared)))
        if len(samples) < 6 and r['idx'] % 37 == 5:
            samples.append(dict(subject=r['sig'], accesses=acc, claimed_local=sorted(local & set(acc)), natively_shared=sorted(shared)))
    rep.cov = dict(states=max(states, 1), transitions=max(trans, 1), traces_validated_against_impl=claims,
                   evaluations=execs, distinct_nontrivial=shared_total,
                   rule='evaluation = one controlled execution; non-trivial = (subject, line) pairs natively observed shared; '
                        'traces_validated_against_impl = claimed-local access lines checked against the exploration',
                   subjects=len(recs), preemption_bound=t['bound'], native_truth_hash=thash, samples=samples)
    rep.assumptions = ['"shared" is observed, not reachability: a location reachable from another goroutine but never accessed by it is not detected (weaker, never a false alarm)',
                       'contexts: the arbitrary context of each function (main, goroutine entries, closures); the subjects have no call-site contexts']
    return rep.finish(exhaustive=True)

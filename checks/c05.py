"""C05 — options documented as soundness-neutral do not change the verdict (engine P, differential).
Programs: generated taint family + the repository's own taint testdata programs (tool load path, own configs).
Option vectors: all single deviations from the default vector + all pairs with summarize-on-demand (quick); all pairs
(thorough). Oracle: reported pair set == pair set of the default vector; max-alarms=k: subset, <=k, non-empty iff."""
import sys
sys.path.insert(0, '/verif/lib')
import vlib

TIERS = {
    'quick': dict(bounds='k1d1', corpus_vecs='default,od,pf=main,ma1,ma2,paths,coverage,od+ma1',
                  corpus_dirs='basic,closures,globals,interfaces,fields,tuples,validators,sanitizers,defers,parameters,builtins,selects'),
    'thorough': dict(bounds='k2d0+k1d1', corpus_vecs='default,od,pf=main,paths,coverage,nocallee,log3,log5,ma1,ma2,ma3,od+pf=main,od+paths,od+coverage,od+nocallee,od+log5,od+ma1,od+ma2,od+ma3,paths+coverage,coverage+ma1,paths+ma2,all-reports+od+log5'),
}


def max_alarms(name):
    for part in name.split('+'):
        if part.startswith('ma'):
            return int(part[2:])
    return 0


def judge(rep, case, atoms, vec, base, got, panic, err, base_panic):
    k = max_alarms(vec)
    b, g = set(base or []), set(got or [])
    if panic or base_panic:
        rep.cov['skipped_because_of_analyzer_panic'] = rep.cov.get('skipped_because_of_analyzer_panic', 0) + 1
        return False  # crashes are C07's subject; no result to compare
    if k == 0:
        if b != g:
            return rep.fail(f'{case} @ {vec}', atoms + ['vec:' + p for p in vec.split('+')],
                            dict(case=case, vec=vec, default=sorted(b), got=sorted(g), only_default=sorted(b - g),
                                 only_vec=sorted(g - b)), cfg=vec)
    else:
        bad = None
        if not g <= b:
            bad = 'not a subset of the unlimited result'
        elif len(g) > k:
            bad = f'more than {k} pairs'
        elif b and not g:
            bad = 'empty although the unlimited result is not'
        if bad:
            return rep.fail(f'{case} @ {vec}', atoms + ['vec:' + p for p in vec.split('+')],
                            dict(case=case, vec=vec, default=sorted(b), got=sorted(g), note=bad), cfg=vec)
    return False


def main(tier):
    t = TIERS[tier]
    rep = vlib.Report('C05', tier)
    vlib.build()
    recs, deaths = vlib.run_shards('opts', ['-bounds', t['bounds'], '-tier', tier])
    evals = nontriv = 0
    vecnames = set()
    samples = []
    distinct = set()
    for r in sorted(recs, key=lambda r: r['idx']):
        if r.get('load_err'):
            vlib.tool_error(f"program does not load: {r['sig']}: {r['load_err']}")
        base, bp = r['flows'][0], r['panics'][0]
        for vi, vec in enumerate(r['vecs']):
            vecnames.add(vec)
            evals += 1
            judge(rep, r['sig'], r['atoms'], vec, base, r['flows'][vi], r['panics'][vi], r['errs'][vi], bp)
        if base:
            nontriv += 1
        distinct.add(tuple(base or []))
        if len(samples) < 4 and r['idx'] % 300 == 7:
            samples.append(dict(program=r['sig'], vectors=r['vecs'][:6], default_flows=base))
    gen_programs = len(recs)
    dead_gen = len(deaths)
    for begin, tail in deaths:
        rep.fail('worker-death ' + begin, ['worker-death'], dict(begin=begin, tail=tail[-800:]))
    # corpus (tool load path)
    cargs = ['-tier', tier]
    if t.get('corpus_dirs'):
        cargs += ['-dirs', t['corpus_dirs']]
    if t['corpus_vecs']:
        cargs += ['-vecs', t['corpus_vecs']]
    crecs, cdeaths = vlib.run_shards('corpus-opts', cargs, nshards=8, timeout=3600)
    by = {}
    loaderr = set()
    for r in crecs:
        if r.get('load_err'):
            loaderr.add(r['sig'])
            continue
        by.setdefault(r['sig'], {})[r['vecs'][0]] = r
    corpus_nontriv = 0
    for d, m in sorted(by.items()):
        if 'default' not in m:
            continue
        base = m['default']
        if base['flows'][0]:
            corpus_nontriv += 1
        for vec, r in sorted(m.items()):
            evals += 1
            vecnames.add(vec)
            judge(rep, 'testdata/' + d, ['testdata/' + d], vec, base['flows'][0], r['flows'][0], r['panics'][0], r['errs'][0],
                  base['panics'][0])
        if len(samples) < 7:
            samples.append(dict(program='testdata/' + d, vectors=sorted(m), default_flows=(base['flows'][0] or [])[:5]))
    for begin, tail in cdeaths:
        rep.fail('corpus worker-death ' + begin, ['worker-death', begin.split()[-2] if len(begin.split()) > 2 else '?'],
                 dict(begin=begin, tail=tail[-800:]))
    skipped = rep.cov.get('skipped_because_of_analyzer_panic', 0)
    rep.cov = dict(
        skipped_because_of_analyzer_panic=skipped, states=gen_programs + len(by), transitions=evals, traces_validated_against_impl=len(by),
        evaluations=evals, distinct_nontrivial=nontriv + corpus_nontriv,
        rule='case = (program, option vector); programs = generated taint family within the bound + repository testdata '
             'programs loaded through go/packages with their own config; non-trivial = program whose default result is '
             'non-empty; traces_validated_against_impl = corpus programs analysed through the tool load path',
        generated_programs=gen_programs, corpus_programs=len(by), corpus_load_errors=sorted(loaderr),
        option_vectors=sorted(vecnames), distinct_default_results=len(distinct), bounds=t['bounds'], samples=samples,
        worker_deaths=dead_gen + len(cdeaths))
    rep.assumptions = ['differential oracle only: no absolute truth is used', 'report directories are per-worker scratch directories',
                       'option vectors: single deviations + pairs with on-demand (quick) / all pairs (thorough); not the full product']
    return rep.finish(exhaustive=True)

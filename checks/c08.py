"""C08 — function summaries cover every direct def-use chain of the function (engine L over the real SSA + P).
Reference model: the SSA value graph of each summarised function (operand->result edges for BinOp, arithmetic UnOp,
Convert, ChangeType, ChangeInterface, MakeInterface, TypeAssert, Field, Index, Phi, Extract, Slice and the transferring
builtins); BFS from every origin (parameter, free variable, call result); for every reachable target (return operand,
call/defer/go argument or receiver, closure binding, branch condition) the real summary must have an edge
origin-node -> target-node. Functions: every function of every generated program + every function of the listed
standard-library packages (summarised directly with IntraProceduralAnalysis).
Second clause (closure of the abstract state): the analysis of every such function is re-run with a post-block callback
that hands out the real analysis state; after the fixpoint, for every instruction and each of its CFG predecessor
instructions (reference predecessor relation from the SSA blocks) every (access path, mark) attached to a value at the
predecessor must be attached at the instruction - default and field-sensitive configuration."""
import sys
sys.path.insert(0, '/verif/lib')
import vlib

TIERS = {'quick': dict(fams=[('taint', 'k1d1'), ('snippets', ''), ('cg2d1', '')], std='strings,strconv,bytes'),
         'thorough': dict(fams=[('taint', 'k2d0+k1d1'), ('shapes3', ''), ('guard', 'k1d0')],
                          std='strings,strconv,bytes,sort,path,path/filepath,unicode/utf8,bufio,fmt,errors,io,regexp/syntax,encoding/json,net/url,text/tabwriter,math/big')}


def main(tier):
    t = TIERS[tier]
    rep = vlib.Report('C08', tier)
    vlib.build()
    values = edges = pairs = longp = funcs = 0
    samples = []

    cpairs = [0]

    def consume(recs, deaths, label):
        nonlocal values, edges, pairs, longp, funcs
        for begin, tail in deaths:
            rep.fail(f'{label} worker-death {begin}', ['death', label], dict(begin=begin, tail=tail[-800:]))
        for r in recs:
            if r.get('load_err') and label != 'std':
                vlib.tool_error(f"program does not load: {r['sig']}: {r['load_err']}")
            values += r['values']; edges += r['edges']; pairs += r['pairs']; longp += r['long']; funcs += r['funcs']; cpairs[0] += r.get('closure_pairs', 0)
            if r.get('panic'):
                rep.fail(f"{r['sig']} / panic", r['atoms'] + ['panic', 'fn:' + r['sig']], dict(sig=r['sig'], panic=r['panic']))
            if r.get('missing'):
                rep.fail(r['sig'], r['atoms'] + (r.get('matoms') or []), dict(sig=r['sig'], missing=r['missing']))
            if len(samples) < 6 and r['pairs'] >= 3 and r['idx'] % 37 == 1:
                samples.append(dict(subject=r['sig'], functions=r['funcs'], origin_target_pairs=r['pairs'], via_two_or_more_instructions=r['long']))
    for fam, bounds in t['fams']:
        recs, deaths = vlib.run_shards('summ', ['-family', fam, '-bounds', bounds or 'k1d0'])
        consume(recs, deaths, fam)
    recs, deaths = vlib.run_shards('summ-std', ['-pkgs', t['std']], nshards=8)
    std_funcs = len(recs)
    consume(recs, deaths, 'std')
    rep.cov = dict(states=max(values, 1), transitions=max(edges, 1), traces_validated_against_impl=funcs,
                   evaluations=pairs + cpairs[0], distinct_nontrivial=longp,
                   rule='evaluation = (origin, target) pair reachable in the reference value graph, or (predecessor instruction, instruction, value, mark) inclusion of the closure clause; non-trivial = pair connected '
                        'through >= 2 value-computing instructions; states/transitions = SSA values visited / operand edges followed',
                   functions=funcs, closure_inclusions_checked=cpairs[0], std_functions=std_funcs, std_packages=t['std'].split(','), samples=samples)
    rep.assumptions = ['loads, stores, address computations and map lookups are deliberately not edges of the reference (memory is C01)',
                       'std functions are summarised out of context (not reachable from a main): dynamic calls without resolved callee are skipped',
                       'the monotone-closure clause (O2 of the design) is not implemented yet']
    return rep.finish(exhaustive=True)

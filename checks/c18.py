"""C18 — the reachability analysis is conservative (engine P).
Same dispatch family as C12 (incl. the shapes named by the property: function passed as argument of a deferred/go
call, method callable only after an interface-to-interface assertion, method values/expressions, function stored in a
global by init, generic instantiations). Oracle: every natively executed function is in FindReachable (all roots); every function reachable in the pointer call graph is in FindReachable; FindReachable is a subset of all
functions; excluding roots shrinks the set monotonically."""
import sys
sys.path.insert(0, '/verif/lib'); sys.path.insert(0, '/verif/checks')
import vlib, dispfam


def warm():
    dispfam.warm()


def main(tier):
    rep = vlib.Report('C18', tier)
    t, truth, thash, recs, deaths = dispfam.load(tier)
    for begin, tail in deaths:
        rep.fail('worker-death ' + begin, ['death'], dict(begin=begin, tail=tail[-800:]))
    evals = matched = 0
    forms = set()
    samples = []
    for r in sorted(recs, key=lambda r: r['idx']):
        if r.get('load_err'):
            vlib.tool_error(f"program does not load: {r['sig']}: {r['load_err']}")
        if r.get('panic'):
            rep.fail(r['sig'] + ' / panic', r['atoms'] + ['panic'], dict(sig=r['sig'], panic=r['panic']))
            continue
        executed, calls = dispfam.events_of(truth[r['idx']])
        for sel in ('all',):  # with roots excluded the native run (which starts at main after init) demands nothing
            found = set(r['find'].get(sel) or [])
            for f in executed:
                evals += 1
                if f in found:
                    matched += 1
                else:
                    rep.fail(f"{r['sig']} / {f} executes but is not reported (roots={sel})", r['atoms'] + ['missed', 'fn:' + f, 'roots:' + sel],
                             dict(sig=r['sig'], roots=sel, executed=f, reported=sorted(found)))
        for f in r.get('cg_not_find') or []:
            evals += 1
            rep.fail(f"{r['sig']} / {f} in pointer call graph, not reported", r['atoms'] + ['cg-not-find'], dict(sig=r['sig'], function=f))
        for f in r.get('find_not_all') or []:
            rep.fail(f"{r['sig']} / {f} reported but not a program function", r['atoms'] + ['find-not-all'], dict(sig=r['sig'], function=f))
        for f in r.get('non_monotone') or []:
            rep.fail(f"{r['sig']} / non-monotone: {f}", r['atoms'] + ['non-monotone'], dict(sig=r['sig'], detail=f))
        if executed:
            forms.add(tuple(x for x in r['atoms'] if x.startswith('hop')))
        if len(samples) < 5 and r['idx'] % 97 == 5:
            samples.append(dict(program=r['sig'], executed=executed, reported_all_roots=r['find'].get('all')))
    rep.cov = dict(states=sum(x['Execs'] for x in truth.values()), transitions=max(evals, 1), traces_validated_against_impl=matched,
                   evaluations=evals, distinct_nontrivial=len(forms),
                   rule='evaluation = (executed function, root selection) membership + inclusion clauses; non-trivial = distinct form '
                        'sequence with >=1 executed function; states = (program, valuation) executions',
                   programs=len(recs), bounds=t['bounds'], native_truth_hash=thash, samples=samples)
    rep.assumptions = ['-nomain selections demand nothing natively (every announced function runs from main)', 'CLI output (argot reachability -json) is not compared separately']
    return rep.finish(exhaustive=True)

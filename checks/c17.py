"""C17 — dataflow graphs are structurally consistent in both directions (engines P + L).
(a) invariant I(G) over the public accessors after the real taint and backtrace analyses (eager and on-demand) on every
program of the family; (b) explicit-state: the lattice of built-summary subsets of each program with <= N user
functions, reached through ALL orders of BuildSummary+Sync on fresh analyzer states: I(G) in every state, the canonical
graph depends only on the subset (not the order), and the top element equals the eager graph."""
import sys
sys.path.insert(0, '/verif/lib')
import vlib

TIERS = {'quick': dict(fams=[('taint', 'k1d1'), ('snippets', '')], maxfuncs=4),
         'thorough': dict(fams=[('taint', 'k2d0+k1d1'), ('shapes2', ''), ('guard', 'k1d0')], maxfuncs=5)}


def main(tier):
    t = TIERS[tier]
    rep = vlib.Report('C17', tier)
    vlib.build()
    states = trans = evals = links = nprog = lattice_progs = top_equal = nontriv = 0
    kinds = {}
    samples = []
    for fam, bounds in t['fams']:
        recs, deaths = vlib.run_shards('graph', ['-family', fam, '-bounds', bounds or 'k1d0', '-maxfuncs', str(t['maxfuncs'])])
        for begin, tail in deaths:
            rep.fail('worker-death ' + begin, ['death'], dict(begin=begin, tail=tail[-800:]))
        for r in recs:
            nprog += 1
            if r.get('load_err'):
                vlib.tool_error(f"program does not load: {r['sig']}: {r['load_err']}")
            states += r['states']
            trans += r['transitions']
            evals += r['evals']
            links += r['links']
            if r['links'] > 0:
                nontriv += 1
            if r['lattice']:
                lattice_progs += 1
                if r['top_equal'] == 1:
                    top_equal += 1
            for v, w in zip(r.get('viol') or [], r.get('where') or []):
                kinds[v['kind']] = kinds.get(v['kind'], 0) + 1
                rep.fail(f"{r['sig']} @ {w}", r['atoms'] + ['kind:' + v['kind'], 'where:' + w.split(':')[0].split('-')[0]],
                         dict(sig=r['sig'], where=w, kind=v['kind'], msg=v['msg']))
            if len(samples) < 5 and r['lattice'] and r['idx'] % 211 == 3:
                samples.append(dict(sig=r['sig'], user_functions=r['funcs'], lattice_states=r['states'], transitions=r['transitions'],
                                    invariant_clause_instances=r['evals'], top_equals_eager=r['top_equal'] == 1))
    rep.cov = dict(states=max(states, 1), transitions=max(trans, 1), traces_validated_against_impl=top_equal,
                   evaluations=evals, distinct_nontrivial=nontriv,
                   rule='evaluations = invariant clause instances; non-trivial = program whose graph has >=1 inter-procedural link; '
                        'states = distinct built-summary subsets, transitions = BuildSummary+Sync steps replayed on fresh states (all orders); '
                        'traces_validated_against_impl = programs whose on-demand top element equals the eager graph',
                   programs=nprog, lattice_programs=lattice_progs, interprocedural_links=links, violation_kinds=kinds, samples=samples)
    rep.assumptions = ['invariant evaluated through public accessors only', 'lattice restricted to programs with few user functions (all orders enumerated)']
    return rep.finish(exhaustive=True)

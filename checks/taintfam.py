"""Generic engine-P taint-family check (used by C01, C02).
C01 — every explicit source→sink flow is reported (engine P).
Alphabet: gen.Steps × contexts × source/sink forms. Bound: (k,d) slices + valuation horizon H. Oracle: native token
execution over all valuations ⊆ reported flows, under every soundness-preserving configuration."""
import json, os, shutil, subprocess, sys
import concurrent.futures as cf
sys.path.insert(0, '/verif/lib')
import vlib
from vlib import V

CFG_LABELS = {
    'c01q': ['default', 'fs', 'od', 'fs+od', 'pf=main', 'pf=nomatch'],
    'c01': [f"{'fs' if fs else 'nofs'}+{'od' if od else 'eager'}+pf={pf or 'none'}" for fs in (0, 1) for od in (0, 1)
            for pf in ('', 'main', 'nomatch')],
    'c02': ['default', 'fs', 'od', 'fs+od'],
}


def cli_run(sig, cfgs='default'):
    d = vlib.scratch('cli')
    try:
        vlib.vp('emit', '-sig', sig, '-dir', d, '-cfgs', cfgs)
        r = subprocess.run([f'{vlib.BIN}/argot', 'taint', '-config', 'config.yaml', './main'], cwd=d, capture_output=True,
                           text=True, env=vlib.GOENV, timeout=600)
        out = r.stdout + r.stderr
        return dict(sig=sig, rc=r.returncode, detected='Taint flows detected' in out, crashed='panic:' in out or 'goroutine ' in out)
    finally:
        shutil.rmtree(d, ignore_errors=True)


def run(prop, family, t, tier, rule_extra=''):
    rep = vlib.Report(prop, tier)
    vlib.build()
    truth, thash = vlib.native_truth(family, t['bounds'], t['horizon'])
    recs, deaths = vlib.run_shards('taint', ['-family', family, '-bounds', t['bounds'], '-cfgs', t['cfgs']])
    labels = CFG_LABELS[t['cfgs']]
    recs.sort(key=lambda r: r['idx'])
    seen = {r['idx'] for r in recs}
    nprog = len(truth)
    # worker deaths: the analyzer crashed in a goroutine; the case produced no report
    dead = {}
    for begin, tail in deaths:
        parts = begin.split(' ', 2)
        if len(parts) == 3 and parts[1].isdigit():
            dead[int(parts[1])] = (parts[2], tail[-600:])
    if len(seen | set(dead)) != nprog and not any(b.startswith('ABORTED') for b, _ in deaths):
        vlib.tool_error(f'analysis records incomplete: {len(seen)} + {len(dead)} dead of {nprog}')
    execs = sum(r['Execs'] for r in truth.values())
    branches = sum(r['Branches'] for r in truth.values())
    with_flow = sum(1 for r in truth.values() if any(f.startswith('S') for f in (r['Flows'] or [])))
    outcomes = {}
    evals = 0
    dump = open(f'{V}/build/last-{prop}.jsonl', 'w')
    samples = []
    for r in recs:
        tr = {f for f in (truth[r['idx']]['Flows'] or []) if f.startswith('S')}
        if r.get('load_err'):
            vlib.tool_error(f"generated program does not type-check: {r['sig']}: {r['load_err']}")
        for ci, res in enumerate(r['results']):
            evals += 1
            got = set(res['Flows'] or [])
            missing = sorted(tr - got)
            cls = ('flow' if tr else 'noflow', 'panic' if res['Panic'] else ('reported' if got else 'silent'))
            outcomes[cls] = outcomes.get(cls, 0) + 1
            if tr:
                dump.write(json.dumps(dict(atoms=r['atoms'], cfg=labels[ci], failed=bool(missing), sig=r['sig'])) + '\n')
            if missing:
                rep.fail(f"{r['sig']} @ {labels[ci]}", r['atoms'],
                         dict(sig=r['sig'], cfg=labels[ci], truth=sorted(tr), reported=sorted(got), missing=missing,
                              panic=res['Panic'], err=res['Err'][:300], replay=f"{vlib.BIN}/vp taint-one -sig '{r['sig']}'"),
                         cfg=labels[ci])
        if len(samples) < 6 and r['idx'] % max(1, nprog // 6) == 0:
            samples.append(dict(sig=r['sig'], truth=sorted(tr), reported_default=r['results'][0]['Flows']))
    dump.close()
    for idx, (sig, tail) in dead.items():
        tr = {f for f in (truth[idx]['Flows'] or []) if f.startswith('S')}
        if tr:
            import re
            atoms = [a for a in re.split(r' \| ', sig)]
            atoms += [a.split('@')[0] for a in atoms if '@' in a]
            rep.fail(f'{sig} @ worker-death', atoms, dict(sig=sig, truth=sorted(tr), death=tail))
    # tool-path conformance: a covering subset through the argot binary
    cover, picked = set(), []
    for r in recs:
        new = [a for a in r['atoms'] if a not in cover]
        if new and len(picked) < t['cli']:
            picked.append(r)
            cover.update(r['atoms'])
    agree = 0
    with cf.ThreadPoolExecutor(vlib.NPROC) as ex:
        for r, c in zip(picked, ex.map(lambda r: cli_run(r['sig'], t['cfgs']), picked)):
            inproc = r['results'][0]
            tr = [f for f in (truth[r['idx']]['Flows'] or []) if f.startswith('S')]
            same = (c['detected'] == bool(inproc['Flows'])) and (c['crashed'] == bool(inproc['Panic']))
            if same:
                agree += 1
            else:
                rep.unrepro.append(dict(kind='in-process/tool-path disagreement', sig=r['sig'], cli=c, inproc=inproc))
            if tr and c['rc'] == 0:
                rep.fail(f"{r['sig']} @ cli", r['atoms'], dict(sig=r['sig'], truth=tr, cli=c, note='flow exists but argot exited 0'),
                         cfg='default')
    if picked and agree < len(picked):
        vlib.log(f'WARNING: {len(picked) - agree} in-process/tool-path disagreements (see evidence)')
    capped = sum(1 for r in truth.values() if r['Capped'])
    rep.cov = dict(
        states=execs, transitions=max(branches, 1), traces_validated_against_impl=agree,
        evaluations=evals, distinct_nontrivial=with_flow,
        rule='programs = all typed step chains within the (k,d) bounds (deduplicated by canonical signature); each program '
             'runs natively under every valuation of its Cond() calls (DFS, horizon H); non-trivial = program with >=1 '
             'natively observed source->sink flow' + rule_extra,
        programs=nprog, bounds=t['bounds'], horizon=t['horizon'], configurations=labels, native_truth_hash=thash,
        programs_with_flow=with_flow, programs_without_flow=nprog - with_flow, programs_hitting_horizon=capped,
        outcome_classes={f'{a}/{b}': n for (a, b), n in sorted(outcomes.items())},
        worker_deaths=len(dead), cli_subset=len(picked), cli_agree=agree,
        alphabet_steps=len({a for r in recs for a in r['atoms']}),
        samples=samples,
    )
    rep.assumptions = [
        'small-scope: programs beyond the (k,d) bound / loops beyond horizon H are not covered',
        'native oracle is one-sided: tokens inside closure environments and buffered channels are invisible to reflect',
        'site identity by callee name (SourceN / SinkN), one site per name',
    ]
    return rep.finish(exhaustive=True)

"""C11 — the pointer analysis never misses an alias that occurs at run time (engine P).
Subjects: two marked allocations and every sequence of <=2 (thorough <=3) pointer operations from a 35-operation
alphabet (copy, conditional assignment, field/slice/map/channel/interface/closure/global round trips, struct copy,
append, re-slice, method, out-parameter, range loop, type switch, fresh allocation, linked field); every pointer-like
variable (and the slices/maps created on the way) is probed. Native: all valuations; probes of the same static type that
saw the same object in one execution (slices: end of backing array) and the allocation id of the probed object.
Oracle: MayAlias of the corresponding points-to queries must be true; the allocation must be a label of the set."""
import sys
sys.path.insert(0, '/verif/lib')
import vlib

TIERS = {'quick': dict(bounds='d2', horizon=6), 'thorough': dict(bounds='d3', horizon=8)}


def warm():
    t = TIERS['quick']
    vlib.native_truth('alias', t['bounds'], t['horizon'])


def main(tier):
    t = TIERS[tier]
    rep = vlib.Report('C11', tier)
    vlib.build()
    truth, thash = vlib.native_truth('alias', t['bounds'], t['horizon'])
    recs, deaths = vlib.run_shards('alias', ['-bounds', t['bounds']])
    for begin, tail in deaths:
        rep.fail('worker-death ' + begin, ['death'], dict(begin=begin, tail=tail[-800:]))
    facts = matched = noquery = 0
    nontriv = set()
    samples = []
    for r in sorted(recs, key=lambda r: r['idx']):
        if r.get('load_err'):
            vlib.tool_error(f"subject does not load: {r['sig']}: {r['load_err']}")
        if r.get('panic'):
            rep.fail(r['sig'] + ' / panic', r['atoms'] + ['panic'], dict(sig=r['sig'], panic=r['panic'][:800]))
            continue
        nat = truth[r['idx']]
        have = set(r['probes'] or [])
        may, allocs = set(r['may_alias'] or []), set(r['allocs'] or [])
        for f in nat.get('Alias') or []:
            facts += 1
            if '=' in f:
                a, b = (int(x) for x in f.split('='))
                if a not in have or b not in have:
                    noquery += 1
                    continue
                if f in may:
                    matched += 1
                else:
                    rep.fail(f"{r['sig']} / probes {a} and {b} saw the same object, MayAlias is false", r['atoms'] + ['alias-missed'],
                             dict(sig=r['sig'], observed=f, may_alias=sorted(may)))
                nontriv.add((r['sig'], f))
            else:
                a = int(f.split('@')[0])
                if a not in have:
                    noquery += 1
                    continue
                if f in allocs:
                    matched += 1
                else:
                    rep.fail(f"{r['sig']} / probe {a} saw allocation {f.split('@')[1]}, which is not in its points-to set", r['atoms'] + ['alloc-missed'],
                             dict(sig=r['sig'], observed=f, points_to_allocations=sorted(allocs)))
        if len(samples) < 5 and r['idx'] % 83 == 9:
            samples.append(dict(subject=r['sig'], native=nat.get('Alias'), may_alias=r['may_alias'], allocations=r['allocs']))
    rep.cov = dict(states=sum(x['Execs'] for x in truth.values()), transitions=max(facts, 1), traces_validated_against_impl=matched,
                   evaluations=facts, distinct_nontrivial=len(nontriv),
                   rule='evaluation = natively observed fact (probe pair on the same object / probe on a marked allocation) in some execution; '
                        'non-trivial = distinct (subject, aliasing pair); states = (program, valuation) executions',
                   subjects=len(recs), facts_without_query=noquery, bounds=t['bounds'], native_truth_hash=thash, samples=samples)
    rep.assumptions = ['only values for which the analyzer registered a points-to query are judged (others counted in facts_without_query)',
                       'probe values of type *T, []*T, map[string]*T; no reflection/unsafe']
    return rep.finish(exhaustive=True)

"""C20 — the analyzer's own parallelism is race-free, deadlock-free, leak-free and order-preserving (engine S).
The REAL code runs under a controlled scheduler: lib/build-sched.sh mechanically rewrites the concurrency constructs of
/repo's current sources (go statements, channels, sync.WaitGroup/Mutex, atomics, runtime.NumCPU) onto the vsched shims
and links the rewritten copies into the worker. (a) MapParallel: every interleaving up to the preemption bound for all
slice lengths / worker counts: result equals the sequential map in input order, f invoked exactly once per element, no
deadlock, no leaked goroutine, no panic. (b)-(d): analyzer-state initialisation, summary pass and report writer (see
DESIGN.md)."""
import json, os, subprocess, sys
import concurrent.futures as cf
sys.path.insert(0, '/verif/lib')
import vlib
from vlib import V

PICKS = {'quick': ['snip[ins.globalInClosure]', 'snip[ins.initFuncs]'],
         'thorough': ['snip[ins.globalInClosure]', 'snip[rec.mutual]', 'snip[ins.closureLoopVar]', 'snip[ins.initFuncs]', 'snip[gen.typeMethod]', 'snip[ins.embeddedIface]', 'snip[defer.namedResult]', 'snip[rec.list]', 'snip[ins.go]', 'snip[ins.typeSwitch]']}
REP_EXECS = {'quick': 12, 'thorough': 1500}


def cases(tier):
    out = []
    if tier == 'quick':
        for l in (0, 1, 2):
            for n in (-1, 0, 1, 2):
                out.append((l, n, 1))
        out += [(0, 3, 1), (1, 3, 1), (1, 2, 2), (2, 1, 2), (3, 1, 2), (1, 1, -1), (0, 2, -1)]
    else:
        for l in (0, 1, 2, 3):
            for n in (-1, 0, 1, 2, 3):
                out.append((l, n, 2))
        out += [(1, 1, -1), (0, 2, -1), (2, 1, -1), (1, 2, 3), (2, 2, 3)]
    # large slices under the canonical schedule (bound -2): capacity / threshold mistakes (buffer sizes, batching) show
    # up as a deadlock or a wrong result that the small lengths cannot reach; powers of two and their neighbours
    big = [100, 1000, 1023, 1024, 1025, 4095, 4096, 4097, 8191, 8192, 8193, 8200, 8210] + ([16384, 16400, 20000, 65537] if tier != 'quick' else [])
    for l in big:
        for n in (1, 3):
            out.append((l, n, -2))
    return out


def build_sched():
    r = subprocess.run(['bash', f'{V}/lib/build-sched.sh'], env=vlib.GOENV)
    if r.returncode != 0:
        vlib.tool_error('cannot rewrite/build the schedule worker from the current tree')


def run_group(i, group, maxexecs):
    out = f'{V}/build/mappar-{i}.json'
    spec = ';'.join(f'{l},{n},{b}' for l, n, b in group)
    r = subprocess.run([f'{vlib.BIN}/vps', 'mappar', '-out', out, '-cases', spec, '-maxexecs', str(maxexecs)], capture_output=True, text=True,
                       env=vlib.GOENV, timeout=7200)
    if r.returncode not in (0, 1) or not os.path.exists(out):
        return None, r.stderr[-1500:]
    return json.load(open(out)), ''


def main(tier):
    rep = vlib.Report('C20', tier)
    build_sched()
    cs = cases(tier)
    groups = [cs[i::vlib.NPROC] for i in range(vlib.NPROC) if cs[i::vlib.NPROC]]
    maxexecs = 200000 if tier == 'quick' else 1500000
    results = []
    with cf.ThreadPoolExecutor(len(groups)) as ex:
        for res, err in ex.map(lambda t: run_group(t[0], t[1], maxexecs), list(enumerate(groups))):
            if res is None:
                rep.fail('mappar worker died', ['death', 'part:a'], dict(stderr=err))
            else:
                results += res
    execs = sum(c['Execs'] for c in results)
    trans = sum(c['Transitions'] for c in results)
    states = sum(c['States'] for c in results)
    capped = [f"len={c['Len']} n={c['N']} bound={c['Bound']}" for c in results if c['Execs'] >= maxexecs]
    for c in results:
        if c.get('Violation'):
            sched = ','.join(str(x) for x in [c['Len'], c['N']] + (c.get('Schedule') or []))
            rep.fail(f"MapParallel len={c['Len']} workers={c['N']}: {c['Violation']}", ['part:a', f"len:{c['Len']}", f"n:{c['N']}"],
                     dict(part='a', len=c['Len'], workers=c['N'], bound=c['Bound'], violation=c['Violation'], blocked=c.get('Blocked'),
                          schedule=c.get('Schedule'), replay=f"{vlib.BIN}/vps mappar -replay {sched}"))
    # parts (b)-(d): the whole analysis under the scheduler with map race probes, for every report-option subset
    subj = f'{V}/build/c20-subjects.jsonl'
    picks = PICKS[tier]
    vlib.vp('dump-subjects', '-family', 'snippets', '-out', subj, '-pick', ';'.join(picks))
    nsh = vlib.NPROC

    def rshard(i):
        out = f'{V}/build/c20-rep-{i}.jsonl'
        r = subprocess.run([f'{vlib.BIN}/vps', 'reports', '-in', subj, '-out', out, '-shard', f'{i}/{nsh}', '-bound', '1', '-maxexecs', str(REP_EXECS[tier])],
                           stdout=subprocess.DEVNULL, stderr=subprocess.PIPE, text=True, env=vlib.GOENV, timeout=14400)
        recs = [json.loads(l) for l in open(out)] if os.path.exists(out) else []
        return recs, r.returncode, r.stderr[-1500:]
    rrecs = []
    with cf.ThreadPoolExecutor(nsh) as ex:
        for rs, rc2, err in ex.map(rshard, range(nsh)):
            rrecs += rs
            if rc2 not in (0, 1) or 'DONE' not in err[-100:]:
                rep.fail('reports worker died', ['death', 'part:bcd'], dict(stderr=err))
    rexecs = sum(r['execs'] for r in rrecs)
    rtrans = sum(r['transitions'] for r in rrecs)
    rstates = sum(r['states'] for r in rrecs)
    rcapped = sum(1 for r in rrecs if r['capped'])
    for r in rrecs:
        for v in r.get('violations') or []:
            kind = 'report-incomplete' if 'report' in v else ('race' if 'unsynchronised' in v else ('leak' if 'blocked' in v else 'other'))
            rep.fail(f"analysis of {r['sig']} with options [{r['opts']}]: {v[:200]}", ['part:bcd', 'kind:' + kind] + ['opt:' + o for o in r['opts'].split('+')],
                     dict(part='b-d', subject=r['sig'], options=r['opts'], violation=v, schedule=r.get('schedule'), races=r.get('races')))
    # part (e): caller-supplied ShouldBuildSummary callback (shape of cmd/argot/cli's counting closures) under all schedules
    def cshard(i):
        out = f'{V}/build/c20-cb-{i}.jsonl'
        r = subprocess.run([f'{vlib.BIN}/vps', 'callbacks', '-in', subj, '-out', out, '-shard', f'{i}/{nsh}', '-bound', '1', '-maxexecs', str(REP_EXECS[tier])],
                           stdout=subprocess.DEVNULL, stderr=subprocess.PIPE, text=True, env=vlib.GOENV, timeout=14400)
        recs = [json.loads(l) for l in open(out)] if os.path.exists(out) else []
        return recs, r.returncode, r.stderr[-1500:]
    crecs = []
    with cf.ThreadPoolExecutor(nsh) as ex:
        for rs, rc2, err in ex.map(cshard, range(nsh)):
            crecs += rs
            if rc2 not in (0, 1) or 'DONE' not in err[-100:]:
                rep.fail('callbacks worker died', ['death', 'part:e'], dict(stderr=err))
    for r in crecs:
        for v in r.get('violations') or []:
            rep.fail(f"summary pass of {r['sig']} with {r['opts']}: {v[:200]}", ['part:e', 'kind:callback'],
                     dict(part='e', subject=r['sig'], workers=r['opts'], violation=v, schedule=r.get('schedule'), races=r.get('races')))
    cexecs = sum(r['execs'] for r in crecs)
    execs += rexecs + cexecs
    trans += rtrans + sum(r['transitions'] for r in crecs)
    states += rstates + sum(r['states'] for r in crecs)
    rw = json.load(open(f"{V}/build/rewrite-{os.environ.get('VERIF_BINDIR', 'bin')}.json"))
    rep.cov = dict(callback_runs=len(crecs), callback_executions=cexecs, report_option_runs=len(rrecs), report_executions=rexecs, report_runs_hitting_cap=rcapped,
                   map_write_probes=sum(v.get('MapWrites', 0) for v in rw.get('typed', {}).values()),states=max(states, 1), transitions=max(trans, 1), traces_validated_against_impl=execs,
                   evaluations=execs, distinct_nontrivial=sum(1 for c in results if c['Execs'] > 1),
                   rule='evaluation = one complete controlled execution of the real MapParallel; states = distinct scheduling-point '
                        'prefixes; non-trivial = (len, workers, bound) case with more than one schedule; traces_validated_against_impl = executions '
                        'of the rewritten real code (no model)',
                   cases=[dict(len=c['Len'], workers=c['N'], bound=c['Bound'], executions=c['Execs'], unbounded_exhaustive=c['Exhaustive']) for c in results],
                   capped_cases=capped, rewritten_files=sorted(rw['replace']), rewrite_stats=rw['stats'],
                   samples=[dict(len=c['Len'], workers=c['N'], bound=c['Bound'], executions=c['Execs']) for c in results[:4]],
                   parts_implemented=['a: MapParallel', 'b-d: whole taint analysis (state initialisation goroutines, summary pass, report writer) x 16 option sets with map race probes', 'e: caller-supplied ShouldBuildSummary callback with a race-probed counter (shape of the cli summarize closures) x 1-3 workers'])
    rep.assumptions = ['sequentially consistent scheduler (no weak-memory effects)', 'preemption bound as listed per case; cases that hit the execution cap are listed in capped_cases',
                       'race probes cover map reads (range, through the order seam) and map writes (m[k]=v, delete); struct fields and slice elements are not probed']
    return rep.finish(exhaustive=not capped and rcapped == 0)

"""C10 — user dataflow specifications are applied exactly as written (engine P, exhaustive matrix enumeration).
Alphabet: all signatures of arity <=3 (each parameter string or *string) with <=2 results; ALL 0/1 Args (off-diagonal)
and Rets matrices; forms {function, value-receiver method, pointer-receiver method, interface method contract,
interface contract + contradicting function contract, call through a function value, interface call whose only
implementation has a function contract, bound method value}. The body of the specified function implements the COMPLEMENT
flow, so consulting the body is observable. Oracle: the matrix itself - every listed flow must be reported (missing)
and nothing outside the transitive closure of the matrix may be reported (spurious). Eager and on-demand.
Two-key cases: one function reachable under two contract keys with different matrices (function + interface contract;
two interfaces sharing an implementation), both call sites in one program, both orders: each call follows ITS contract."""
import sys
sys.path.insert(0, '/verif/lib')
import vlib

ALL = 'func,methodV,methodP,iface,ifaceBoth,fvalue,ifaceImplSpec,mvalue'
TIERS = {'quick': [dict(arity=2, forms=ALL), dict(arity=3, forms='func', only_arity=3), dict(arity=1, forms='twokeys')],
         'thorough': [dict(arity=3, forms=ALL), dict(arity=1, forms='twokeys')]}


def main(tier):
    rep = vlib.Report('C10', tier)
    vlib.build()
    evals = listed = nontriv = 0
    cases = set()
    samples = []
    for t in TIERS[tier]:
        recs, deaths = vlib.run_shards('spec', ['-arity', str(t['arity']), '-forms', t['forms']])
        for begin, tail in deaths:
            rep.fail('worker-death ' + begin, ['death'], dict(begin=begin, tail=tail[-800:]))
        for r in recs:
            if t.get('only_arity') and f"arity:{t['only_arity']}" not in r['atoms']:
                continue
            if r.get('load_err'):
                vlib.tool_error(f"case does not load: {r['sig']}: {r['load_err']}")
            evals += 1
            cases.add(r['sig'])
            listed += r['listed']
            if r['listed'] > 0 and any(r['got'].values()):
                nontriv += 1
            atoms = r['atoms'] + ['mode:' + r['mode']]
            if r.get('panic'):
                rep.fail(f"{r['sig']} @ {r['mode']} / panic", atoms + ['panic'], dict(sig=r['sig'], mode=r['mode'], panic=r['panic']))
            if r.get('missing'):
                rep.fail(f"{r['sig']} @ {r['mode']} / missing", atoms + ['missing'],
                         dict(sig=r['sig'], mode=r['mode'], missing=r['missing'], reported=r['got'], listed=r['expect']))
            if r.get('spurious'):
                rep.fail(f"{r['sig']} @ {r['mode']} / spurious", atoms + ['spurious'],
                         dict(sig=r['sig'], mode=r['mode'], spurious=r['spurious'], reported=r['got'], listed=r['expect']))
            if len(samples) < 5 and r['idx'] % 911 == 17 and r['mode'] == 'eager':
                samples.append(dict(case=r['sig'], listed=r['expect'], reported=r['got']))
    rep.cov = dict(states=len(cases), transitions=max(listed, 1), traces_validated_against_impl=evals,
                   evaluations=evals, distinct_nontrivial=nontriv,
                   rule='case = (signature, Args matrix, Rets matrix, call form); evaluation = case x {eager,on-demand}; non-trivial = '
                        'case with >=1 listed flow and >=1 reported flow; transitions = listed (source position -> target) entries checked',
                   samples=samples)
    rep.assumptions = ['reported flows inside the transitive closure of the matrix are tolerated (over-approximation in the caller)',
                       'parameters are string / *string only']
    return rep.finish(exhaustive=True)

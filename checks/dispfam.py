"""Shared driver for the dispatch family (C12, C18): native call events vs analyses."""
import sys
sys.path.insert(0, '/verif/lib')
import vlib

TIERS = {'quick': dict(bounds='d2', horizon=6), 'thorough': dict(bounds='d2+core3', horizon=8)}


def warm():
    t = TIERS['quick']
    vlib.native_truth('dispatch', t['bounds'], t['horizon'])


def load(tier):
    t = TIERS[tier]
    vlib.build()
    truth, thash = vlib.native_truth('dispatch', t['bounds'], t['horizon'])
    recs, deaths = vlib.run_shards('dispatch', ['-bounds', t['bounds']])
    return t, truth, thash, recs, deaths


def events_of(nat):
    ev = [e.rsplit('>', 1) for e in (nat.get('Events') or [])]
    executed = sorted({b for a, b in ev})
    calls = sorted({(a, b) for a, b in ev if a != '<root>'})
    return executed, calls

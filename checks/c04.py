"""C04 — every code location matching a specification is identified, and only those (engine P, exhaustive product).
Alphabet: role {source, sink, sanitizer, validator} x call form {direct, value/pointer-receiver method, interface
invoke, function value, method value, method expression, inside a closure, deferred} x specification pattern vector
(package in {absent, exact anchored, substring, alternation, non-matching} x method in {anchored, substring, prefix,
non-matching, alternation} x receiver in {absent, bare type name, non-matching} x context in {absent, enclosing
function, non-matching}) - the full product - with two decoy call sites per program (a similarly named function, the
same method on another receiver type). Reference matcher: plain regexp.MatchString on generator facts. Observation:
the reported flows of a skeleton whose only unknown is whether the site is treated in the role."""
import sys
sys.path.insert(0, '/verif/lib')
import vlib


def main(tier):
    rep = vlib.Report('C04', tier)
    vlib.build()
    recs, deaths = vlib.run_shards('cid', [])
    for begin, tail in deaths:
        rep.fail('worker-death ' + begin, ['death'], dict(begin=begin, tail=tail[-800:]))
    cells = sites = matched_cells = 0
    mixed = 0
    samples = []
    import json
    dump = open(f'{vlib.V}/build/last-C04.jsonl', 'w')
    for r in sorted(recs, key=lambda r: r['idx']):
        if r.get('load_err'):
            vlib.tool_error(f"case does not load: {r['sig']}: {r['load_err']}")
        cells += 1
        sites += len(r['expected'])
        vals = set(r['expected'].values())
        if len(vals) > 1:
            mixed += 1
        if r.get('panic'):
            rep.fail(r['sig'] + ' / panic', r['atoms'] + ['panic'], dict(sig=r['sig'], panic=r['panic']))
        failed = False
        for kind in ('missed', 'spurious'):
            for site in r.get(kind) or []:
                failed = True
                which = {'1': 'target', '3': 'decoy:other-name', '4': 'decoy:other-receiver'}.get(site, site)
                rep.fail(f"{r['sig']} / site {which} {kind}", r['atoms'] + [kind, 'site:' + which],
                         dict(case=r['sig'], site=which, kind=kind, reference=r['expected'], tool=r['got']))
        dump.write(json.dumps(dict(atoms=r['atoms'] + (['missed'] if r.get('missed') else []) + (['spurious'] if r.get('spurious') else []),
                                   cfg='', failed=failed, sig=r['sig'])) + '\n')
        if len(samples) < 5 and r['idx'] % 1201 == 77:
            samples.append(dict(case=r['sig'], reference=r['expected'], tool=r['got']))
    dump.close()
    rep.cov = dict(states=cells, transitions=max(sites, 1), traces_validated_against_impl=sites, evaluations=sites, distinct_nontrivial=mixed,
                   rule='cell = (role, call form, pattern vector); evaluation = (cell, call site); non-trivial = cell in which the reference says '
                        '"matched" for some site and "not matched" for another', samples=samples)
    rep.assumptions = ['receiver patterns on interface calls are not judged (interface vs concrete type rendering is ambiguous)',
                       'identifier kinds type/field/store/channel-receive and value-match are not covered yet; layouts: library package only']
    return rep.finish(exhaustive=True)

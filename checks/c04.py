"""C04 — every code location matching a specification is identified, and only those (engine P, exhaustive product).
Alphabet: role {source, sink, sanitizer, validator} x call form {direct, value/pointer-receiver method, interface
invoke, function value, method value, method expression, inside a closure, deferred} x specification pattern vector
(package in {absent, exact anchored, substring, alternation, non-matching} x method in {anchored, substring, prefix,
non-matching, alternation} x receiver in {absent, bare type name, non-matching} x context in {absent, enclosing
function, non-matching}) - the full product - with two decoy call sites per program (a similarly named function, the
same method on another receiver type). Reference matcher: plain regexp.MatchString on generator facts. Observation:
the reported flows of a skeleton whose only unknown is whether the site is treated in the role.
Second family (identifier kinds): {type = allocation source (new / &T{} / &local), field-read source (value variable,
pointer, helper parameter, nested struct, inside a closure), field-store sink (same + struct literal), channel-receive
source (value / pointer element, comma-ok, range, select, channel held in a struct field), value-match on source and
sink calls} x pattern vector (package x type x field [x context]) - full product - with decoy sites (other field of
the type, same field of another type, same field of a similarly named type, other constant argument). A pattern whose
verdict depends on a rendering the documentation leaves open (pointer prefix, package name vs path) leaves the site
unjudged."""
import sys
sys.path.insert(0, '/verif/lib')
import vlib


def main(tier):
    rep = vlib.Report('C04', tier)
    vlib.build()
    recs, deaths = vlib.run_shards('cid', [])
    recs2, deaths2 = vlib.run_shards('cid', ['-family', 'kinds'])
    for r in recs2:
        r['idx'] += 100000
        r['kinds'] = True
    recs = list(recs) + list(recs2)
    for begin, tail in list(deaths) + list(deaths2):
        rep.fail('worker-death ' + begin, ['death'], dict(begin=begin, tail=tail[-800:]))
    cells = sites = matched_cells = 0
    mixed = 0
    samples = []
    import json
    dump = open(f'{vlib.V}/build/last-C04.jsonl', 'w')
    for r in sorted(recs, key=lambda r: r['idx']):
        if r.get('load_err'):
            vlib.tool_error(f"case does not load: {r['sig']}: {r['load_err']}")
        cells += 1
        sites += len(r['expected'])
        vals = set(r['expected'].values())
        if len(vals) > 1:
            mixed += 1
        if r.get('panic'):
            rep.fail(r['sig'] + ' / panic', r['atoms'] + ['panic'], dict(sig=r['sig'], panic=r['panic']))
        failed = False
        for kind in ('missed', 'spurious'):
            for site in r.get(kind) or []:
                failed = True
                which = {'1': 'target', '3': 'decoy:other-name', '4': 'decoy:other-receiver'}.get(site, site)
                if r.get('kinds'):
                    which = {'1': 'target', '3': 'decoy:other-field-or-similar-type-or-other-constant', '4': 'decoy:other-type', '5': 'decoy:similar-type',
                             '2': 'decoy:similar-type'}.get(site, site)
                rep.fail(f"{r['sig']} / site {which} {kind}", r['atoms'] + [kind, 'site:' + which],
                         dict(case=r['sig'], site=which, kind=kind, reference=r['expected'], tool=r['got']))
        dump.write(json.dumps(dict(atoms=r['atoms'] + (['missed'] if r.get('missed') else []) + (['spurious'] if r.get('spurious') else []),
                                   cfg='', failed=failed, sig=r['sig'])) + '\n')
        if len(samples) < 5 and r['idx'] % 1201 == 77:
            samples.append(dict(case=r['sig'], reference=r['expected'], tool=r['got']))
    dump.close()
    rep.cov = dict(states=cells, transitions=max(sites, 1), traces_validated_against_impl=sites, evaluations=sites, distinct_nontrivial=mixed,
                   rule='cell = (role, call form, pattern vector); evaluation = (cell, call site); non-trivial = cell in which the reference says '
                        '"matched" for some site and "not matched" for another', samples=samples)
    rep.assumptions = ['receiver patterns on interface calls are not judged (interface vs concrete type rendering is ambiguous)',
                       'interface identifiers ({package, interface}) and the backtrace-point role are not covered; layouts: one library package']
    return rep.finish(exhaustive=True)

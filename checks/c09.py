"""C09 — built-in standard-library summaries over-approximate the real functions (engine P).
(1) exhaustive over the summary table: every entry is resolved to an ssa.Function of a program importing all table
packages and every Args/Rets index is checked against the real parameter/result counts (conformance evidence);
(2) for every entry that can be invoked with synthesised arguments and every argument position: a one-call program
puts a token into that argument only; native run: token found in result j / pointer-like argument k / receiver =>
real flow; the taint analysis of the same one-call program (tool load path) must report it."""
import json, os, subprocess, sys
sys.path.insert(0, '/verif/lib')
import vlib

SINK_IDS = ['1', '3', '4', '5', '6', '7', '8']
LIGHT = ['strings', 'bytes,bufio,strconv,errors,sort,unicode,path', 'fmt,io', 'encoding', 'time,sync,regexp', 'flag,log', 'os', 'reflect']
# the net and crypto groups are not run: analysing a program that imports net/http or crypto/tls makes the analyzer
# exceed the 62 GB of this sandbox (the worker is OOM-killed); their table entries are covered by the signature
# conformance part only. thorough = the same groups in small programs (25 calls each: less masking by imprecision).
TIERS = {'quick': dict(groups=LIGHT, batch=100000), 'thorough': dict(groups=LIGHT, batch=25)}


def warm():
    pass  # the std family depends on the summary table of /repo: generated at check time


def main(tier):
    t = TIERS[tier]
    rep = vlib.Report('C09', tier)
    vlib.build()
    os.makedirs(f'{vlib.V}/build', exist_ok=True)
    tab = f'{vlib.V}/build/stdtab.jsonl'
    vlib.vp('stdtab', '-out', tab)  # one load of every table package from /repo's current tree
    entries = [json.loads(l) for l in open(tab)]
    for e in entries:
        for fn in e.get('funcs') or []:
            fn['targets'] = fn.get('targets') or []
    truth, thash = vlib.native_truth('std', 'k1d0', 6, extra=('timeout',), gen_args=('-entries', tab), nshards=1)
    import concurrent.futures as cf
    recs, deaths = [], []
    with cf.ThreadPoolExecutor(4) as ex:
        for r, dth in ex.map(lambda g: vlib.run_shards('stdrun', ['-batch', str(t['batch']), '-entries', tab, '-pkgs', g], nshards=1,
                                                     timeout=3600), t['groups']):
            recs += r
            deaths += dth
    analysed_pkgs = set(','.join(t['groups']).split(','))
    for begin, tail in deaths:
        rep.fail('worker-death ' + begin, ['death'], dict(begin=begin, tail=tail[-800:]))
    by_name = {r['name']: r for r in recs}
    nat = {r['Name']: r for r in truth.values()}
    unresolved = [e['key'] for e in entries if not e['resolved']]
    misaligned = {e['key']: e['misaligned'] for e in entries if e.get('misaligned')}
    not_invocable = {}
    for e in entries:
        if e['invocable']:
            not_invocable[e['invocable']] = not_invocable.get(e['invocable'], 0) + 1
    triples = observed = calls = 0
    mis_unobserved = set(misaligned)
    samples = []
    loaderrs = 0
    for e in entries:
        if e['pkg'] not in analysed_pkgs:
            continue
        for fn in e.get('funcs') or []:
            a = by_name.get(fn['name'])
            n = nat.get(fn['name'])
            if a is None or n is None:
                continue
            calls += n['Execs']
            if a.get('load_err'):
                loaderrs += 1
                rep.unrepro.append(dict(kind='generated one-call program does not load (harness)', fn=fn['name'], err=a['load_err'][:200]))
                continue
            native_targets = set()
            for fl in n['Flows'] or []:
                sid = fl.split('>')[1]
                if sid in SINK_IDS and SINK_IDS.index(sid) < len(fn['targets']):
                    native_targets.add(fn['targets'][SINK_IDS.index(sid)])
            reported = set()
            for sid in a.get('flows') or []:
                if sid in SINK_IDS and SINK_IDS.index(sid) < len(fn['targets']):
                    reported.add(fn['targets'][SINK_IDS.index(sid)])
            triples += len(fn['targets'])
            observed += len(native_targets)
            missing = sorted(native_targets - reported)
            if a.get('panic'):
                missing = sorted(native_targets)
            for m in missing:
                mis_unobserved.discard(e['key'])
                rep.fail(f"{e['key']}: arg{fn['src']} -> {m}", ['key:' + e['key'], f"flow:arg{fn['src']}->{m}"],
                         dict(entry=e['key'], table=dict(Args=e['args'], Rets=e['rets']), source_argument=fn['src'], lost_target=m,
                              native_targets=sorted(native_targets), reported_targets=sorted(reported), program=fn['text'],
                              misaligned=e.get('misaligned'), analyzer_panic=a.get('panic', '')))
            if len(samples) < 6 and native_targets and len(samples) * 40 < triples:
                samples.append(dict(entry=e['key'], source_argument=fn['src'], native=sorted(native_targets), reported=sorted(reported)))
    rep.cov = dict(states=max(triples, 1), transitions=max(calls, 1), traces_validated_against_impl=observed,
                   evaluations=triples, distinct_nontrivial=observed,
                   rule='triple = (table entry, source argument position, target result/argument); non-trivial = triple with a natively '
                        'observed flow; states = triples, transitions = native calls executed',
                   table_entries=len(entries), resolved=len(entries) - len(unresolved), unresolved_keys=unresolved,
                   misaligned_entries=misaligned, misaligned_without_observed_lost_flow=sorted(mis_unobserved),
                   invocable_entries=sum(1 for e in entries if not e['invocable']), not_invocable=not_invocable,
                   one_call_programs=sum(len(e.get('funcs') or []) for e in entries), harness_load_errors=loaderrs,
                   native_truth_hash=thash, samples=samples)
    rep.assumptions = ['only string-like carriers are used as tokens (numeric parameters are never the source position)',
                       'entries whose parameters cannot be synthesised type-directedly are listed as not invocable',
                       'the one-call functions of each package group are analysed in one program (quick) or in programs of 25 calls (thorough); the net and crypto tables are left out of part (2) in both tiers (a program importing net/http makes the analyzer exceed the 62 GB of the sandbox); extra imprecision can only add reported flows (masking possible, no false alarm)']
    return rep.finish(exhaustive=True)

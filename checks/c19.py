"""C19 — may-panic reports every goroutine entry without a recovering defer (engine P).
Alphabet: go-statement form {named, launched twice, closure, nested closure, value/pointer method, bound method value,
function value in variable, in struct field, interface method} x recovery form in the launched function {none, deferred
recovering closure, deferred named recoverer, deferred recovering method, deferred closure held in a variable, deferred
function that only CALLS a recoverer, recover() not deferred, recovering closure nested in the deferred closure,
recovery deferred on one branch}: the full product. Static oracle (generator facts): the entry function must be in the
report iff-demanded when it does not itself defer a function that calls recover. Native tie: every case is run in its
own process with the launched goroutine panicking; the generator facts are validated against the real crash (the
process dies with the entry function on top of the goroutine trace exactly for the must-report forms)."""
import concurrent.futures as cf, os, re, shutil, subprocess, sys
sys.path.insert(0, '/verif/lib')
import vlib
from vlib import V


def native_runs(n):
    """Builds the native module once (cached by hash) and runs every case in its own process under a few valuations."""
    h = vlib.vp('gen-native', '-family', 'gopanic', '-bounds', 'k1d0', '-hash').stdout.split()[0]
    cache = f'{V}/build/truth/gopanic-{h}.json'
    import json
    if os.path.exists(cache):
        return json.load(open(cache)), h
    d = vlib.scratch('gopanic')
    try:
        vlib.vp('gen-native', '-family', 'gopanic', '-bounds', 'k1d0', '-out', d)
        r = subprocess.run(['go', 'build', '-o', 'native', '.'], cwd=d, env=vlib.GOENV, capture_output=True, text=True)
        if r.returncode != 0:
            vlib.tool_error('native build failed (generator bug):\n' + r.stderr[-3000:])

        def one(k):
            outs = []
            for bits in ('0', '1'):
                # the launched goroutine gets 300 ms to run (rt.Wait); on a loaded machine it may not be scheduled in
                # time, so a surviving run is repeated: one crashing run proves that the cell can crash
                for attempt in range(4):
                    p = subprocess.run([f'{d}/native', '0/1', '6', 'single', str(k), bits], capture_output=True, text=True, timeout=120, cwd=d)
                    died = 'panic: boom' in p.stderr
                    if died:
                        break
                top = ''
                if died:
                    m = re.search(r'goroutine \d+ \[running\]:\n(?:.*\n)*?zsubj/q\d+\.([^\n(]+(?:\([^)]*\))?[^\n(]*)\(', p.stderr)
                    for line in p.stderr.splitlines():
                        mm = re.match(r'zsubj/q\d+\.(.+)\(.*\)$', line.strip())
                        if mm:
                            top = mm.group(1)
                            break
                outs.append(dict(bits=bits, died=died, survived='SURVIVED' in p.stdout, top=top))
            return outs
        with cf.ThreadPoolExecutor(vlib.NPROC) as ex:
            res = list(ex.map(one, range(n)))
        os.makedirs(os.path.dirname(cache), exist_ok=True)
        json.dump(res, open(cache, 'w'))
        return res, h
    finally:
        shutil.rmtree(d, ignore_errors=True)


def norm_native(top):
    # zsubj/q5.worker -> worker ; Main.func1 -> main$1 ; Main.func1.1 -> main$1$1 ; WT.Run -> (WT).Run ; (*WT).Run stays
    top = top.replace('Main.func', 'main$')
    top = re.sub(r'\$(\d+)\.(\d+)', r'$\1$\2', top)
    top = top.replace("[...]", "")
    if re.match(r'^[A-Z]\w*\.\w+$', top) and not top.startswith('main'):
        t, m = top.split('.')
        top = f'({t}).{m}'
    return top


def main(tier):
    rep = vlib.Report('C19', tier)
    vlib.build()
    recs, deaths = vlib.run_shards('gopanic', [], nshards=4)
    for begin, tail in deaths:
        rep.fail('worker-death ' + begin, ['death'], dict(begin=begin, tail=tail[-800:]))
    recs.sort(key=lambda r: r['idx'])
    nat, nhash = native_runs(len(recs))
    cells = demanded = validated = runs = 0
    samples = []
    for r in recs:
        if r.get('load_err'):
            vlib.tool_error(f"case does not load: {r['sig']}: {r['load_err']}")
        cells += 1
        if r.get('panic'):
            rep.fail(r['sig'] + ' / analyzer panic', r['atoms'] + ['panic'], dict(sig=r['sig'], panic=r['panic']))
            continue
        reported = [x.replace('zsubj/main.', '') for x in (r['reported'] or [])]
        reported_x = [x.replace('zsubj/main.', '') for x in (r['reported_excl_other'] or [])]
        runs_k = nat[r['idx']]
        runs += len(runs_k)
        died = [x for x in runs_k if x['died']]
        # validate the generator facts against the real crash
        if r['must_report'] and len(died) != len(runs_k):
            vlib.tool_error(f"generator fact wrong: {r['sig']} is marked must-report but the native run survived: {runs_k}")
        if not r['must_report'] and died and 'rec:deferOneBranch' not in r['atoms']:
            vlib.tool_error(f"generator fact wrong: {r['sig']} recovers by construction but the native run died: {runs_k}")
        for x in died:
            top = norm_native(x['top'])
            if top not in r['entries'] and not any(top == e for e in r['entries']):
                vlib.tool_error(f"crash-trace entry {top!r} of {r['sig']} is not one of the expected entries {r['entries']}")
            validated += 1
        if r['must_report']:
            demanded += 1
            ok = any(x in r['entries'] for x in reported)
            if not ok:
                rep.fail(r['sig'], r['atoms'] + ['missing'],
                         dict(sig=r['sig'], launched_entry=r['entries'], reported=reported, native=[(x['bits'], 'died in ' + norm_native(x['top'])) for x in died]))
            elif r['creators'] < 1:
                rep.fail(r['sig'] + ' / no creation site', r['atoms'] + ['nocreator'], dict(sig=r['sig'], reported=reported))
        if sorted(reported) != sorted(reported_x):
            rep.fail(r['sig'] + ' / exclusion of an unrelated directory changes the report', r['atoms'] + ['exclude'],
                     dict(sig=r['sig'], reported=reported, with_unrelated_exclude=reported_x))
        if len(samples) < 6 and r['idx'] % 17 == 3:
            samples.append(dict(case=r['sig'], must_report=r['must_report'], reported=reported, native=[(x['bits'], x['died']) for x in runs_k]))
    rep.cov = dict(states=cells, transitions=max(runs, 1), traces_validated_against_impl=validated, evaluations=cells, distinct_nontrivial=demanded,
                   rule='cell = (go form, recovery form); non-trivial = cell whose launched function has no recovering defer (must be reported); '
                        'transitions = native process runs; traces_validated_against_impl = crash traces whose top frame is the expected entry',
                   go_forms=sorted({a[3:] for r in recs for a in r['atoms'] if a.startswith('go:')}),
                   recovery_forms=sorted({a[4:] for r in recs for a in r['atoms'] if a.startswith('rec:')}), native_hash=nhash, samples=samples)
    rep.assumptions = ['packages: only the main package (not excluded, not allow-listed); an exclusion matching nothing must not change the report',
                       'spurious reports (recovering entries reported anyway) are not judged']
    return rep.finish(exhaustive=True)

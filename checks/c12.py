"""C12 — the call graph contains every call that can happen at run time (engine P).
Alphabet: 35 dispatch forms (static, function value in variable/field/slice/map/channel/returned, closure, bound method
value, method expression, interface method with 2 implementations, pointer-receiver implementation, embedded-interface
promotion, generic instantiation, defer, go, go closure, function parameter, function passed to a deferred/go call,
interface widening assertion, global initialised in init, one concrete type converted to two interfaces, one type shared by all hops, receivers kept as map keys - interface / pointer / channel keys, map-typed struct field, callables in named array / slice / map types); bound: all sequences of <=2 hops (quick); thorough adds all 3-hop sequences over 13 core forms.
Native: every function announces itself (rt.Enter/Leave keep the dynamic call stack), all valuations. Oracle: every
executed function is in the analyzer's reachable set; every dynamic (caller, callee) transfer has a call-graph path
caller->callee through synthetic wrappers only, both in the analyzer state's call graph (pointer analysis with all values
queried) and in the stand-alone df.PointerAnalysis.ComputeCallgraph graph (no queries, type tracking optimisation on), and callee resolution of the dataflow analysis contains the callee."""
import sys
sys.path.insert(0, '/verif/lib'); sys.path.insert(0, '/verif/checks')
import vlib, dispfam


def warm():
    dispfam.warm()


def main(tier):
    rep = vlib.Report('C12', tier)
    t, truth, thash, recs, deaths = dispfam.load(tier)
    for begin, tail in deaths:
        rep.fail('worker-death ' + begin, ['death'], dict(begin=begin, tail=tail[-800:]))
    nev = matched = 0
    pairs = set()
    samples = []
    for r in sorted(recs, key=lambda r: r['idx']):
        if r.get('load_err'):
            vlib.tool_error(f"program does not load: {r['sig']}: {r['load_err']}")
        if r.get('panic'):
            rep.fail(r['sig'] + ' / panic', r['atoms'] + ['panic'], dict(sig=r['sig'], panic=r['panic']))
            continue
        executed, calls = dispfam.events_of(truth[r['idx']])
        reach = set(r['ptr_reach'] or [])
        for f in executed:
            if f not in reach:
                rep.fail(f"{r['sig']} / {f} not reachable", r['atoms'] + ['unreachable', 'fn:' + f],
                         dict(sig=r['sig'], executed=f, reachable=sorted(reach)))
        reach_cg = set(r['reach_cg'] or [])
        for f in executed:
            if f not in reach_cg:
                rep.fail(f"{r['sig']} / {f} not reachable in ComputeCallgraph", r['atoms'] + ['unreachable-cg', 'fn:' + f],
                         dict(sig=r['sig'], executed=f, reachable=sorted(reach_cg)))
        edges, res, edges_cg = set(r['edges'] or []), set(r['resolve'] or []), set(r['edges_cg'] or [])
        for a, b in calls:
            nev += 1
            ok = True
            if f'{a}>{b}' not in edges:
                ok = False
                rep.fail(f"{r['sig']} / {a}->{b} no call-graph path", r['atoms'] + ['noedge', f'ev:{a}>{b}'],
                         dict(sig=r['sig'], event=f'{a}>{b}', callgraph_paths=sorted(edges)))
            if f'{a}>{b}' not in edges_cg:
                ok = False
                rep.fail(f"{r['sig']} / {a}->{b} no path in ComputeCallgraph(PointerAnalysis)", r['atoms'] + ['noedge-cg', f'ev:{a}>{b}'],
                         dict(sig=r['sig'], event=f'{a}>{b}', callgraph_paths=sorted(edges_cg)))
            if f'{a}>{b}' not in res:
                ok = False
                rep.fail(f"{r['sig']} / {a}->{b} not in ResolveCallee", r['atoms'] + ['noresolve', f'ev:{a}>{b}'],
                         dict(sig=r['sig'], event=f'{a}>{b}', resolved=sorted(res)))
            matched += ok
        for a in r['atoms']:
            if a.startswith('hop') and calls:
                pairs.add(tuple(x for x in r['atoms'] if x.startswith('hop')))
        if len(samples) < 5 and r['idx'] % 101 == 7:
            samples.append(dict(program=r['sig'], native_events=[f'{a}>{b}' for a, b in calls], callgraph_paths=sorted(edges)))
    rep.cov = dict(states=sum(x['Execs'] for x in truth.values()), transitions=max(nev, 1), traces_validated_against_impl=matched,
                   evaluations=nev, distinct_nontrivial=len(pairs),
                   rule='evaluation = dynamic call event (caller id, callee id) of some execution; non-trivial = distinct form sequence '
                        'with >=1 event; states = (program, valuation) executions; traces_validated_against_impl = events matched to a call-graph path and to ResolveCallee',
                   programs=len(recs), forms=sorted({a[5:] for r in recs for a in r['atoms'] if a.startswith('form:')}),
                   bounds=t['bounds'], native_truth_hash=thash, samples=samples)
    rep.assumptions = ['call sites are matched at function granularity (caller function, callee function), not by line',
                       'wrappers = functions that do not announce themselves (synthetic thunks, bound-method wrappers, instantiation wrappers)']
    return rep.finish(exhaustive=True)

"""C03 — backtrace completeness and well-formed traces (engine P).
Programs: the C01 step family, with extra origin calls (Mk1..Mk3) mixed into the data; the sinks are the backtrace
points. Native truth: every token (source or Mk call) found in a sink argument on some valuation. Oracle: some trace
of that sink's argument contains the originating call; every trace ends at the entry argument and consecutive nodes are
linked by a dataflow step (liberal structural check). Eager and on-demand."""
import re, sys
sys.path.insert(0, '/verif/lib')
import vlib

TIERS = {'quick': dict(bounds='k2d0+k1d1', horizon=6), 'thorough': dict(bounds='k2d0+k1d1', horizon=8)}
ORIGIN = {'S': ('Source', 'source'), 'M': ('Mk',)}


def warm():
    t = TIERS['quick']
    vlib.native_truth('taint', t['bounds'], t['horizon'])


def origin_names(tok):
    return {p + tok[1:] for p in ORIGIN[tok[0]]}


def main(tier):
    t = TIERS[tier]
    rep = vlib.Report('C03', tier)
    vlib.build()
    truth, thash = vlib.native_truth('taint', t['bounds'], t['horizon'])
    recs, deaths = vlib.run_shards('backtrace', ['-bounds', t['bounds']])
    dead = set()
    for begin, tail in deaths:
        parts = begin.split(' ', 2)
        if len(parts) == 3 and parts[1].isdigit():
            dead.add(int(parts[1]))
            tr = truth[int(parts[1])]['Flows']
            if tr:
                atoms = re.split(r' \| ', parts[2])
                atoms += [a.split('@')[0] for a in atoms if '@' in a]
                rep.fail(f'{parts[2]} @ worker-death', atoms, dict(sig=parts[2], truth=tr, death=tail[-600:]))
    if len(recs) + len(dead) != len(truth) and not any(b.startswith('ABORTED') for b, _ in deaths):
        vlib.tool_error(f'backtrace records incomplete: {len(recs)}+{len(dead)} of {len(truth)}')
    evals = ntraces = nontriv = wf_checked = 0
    samples = []
    dump = open(f'{vlib.V}/build/last-C03.jsonl', 'w')
    import json
    for r in sorted(recs, key=lambda r: r['idx']):
        if r.get('load_err'):
            vlib.tool_error(f"program does not type-check: {r['sig']}: {r['load_err']}")
        tr = truth[r['idx']]['Flows'] or []
        if tr:
            nontriv += 1
        for mode, run in zip(('eager', 'od'), r['runs']):
            evals += 1
            failed = False
            if run.get('panic'):
                if tr:
                    failed = True
                    rep.fail(f"{r['sig']} @ {mode}", r['atoms'], dict(sig=r['sig'], mode=mode, truth=tr, panic=run['panic']), cfg=mode)
                dump.write(json.dumps(dict(atoms=r['atoms'], cfg=mode, failed=failed, sig=r['sig'])) + '\n')
                continue
            by_sink = {}
            for e in run.get('entries') or []:
                ntraces += e['ntraces']
                by_sink.setdefault(e['sink'], []).append(e)
                for bad in e.get('bad') or []:
                    failed = True
                    rep.fail(f"{r['sig']} @ {mode} / malformed", r['atoms'] + ['malformed'], dict(sig=r['sig'], mode=mode, sink=e['sink'], problem=bad), cfg=mode)
                wf_checked += e['ntraces']
            missing = []
            for fl in tr:
                tok, snk = fl.split('>')
                want = origin_names(tok)
                ok = any(want & set(names) for e in by_sink.get(snk, []) for names in e['origins'])
                if not ok:
                    missing.append(fl)
            if missing:
                failed = True
                rep.fail(f"{r['sig']} @ {mode}", r['atoms'] + ['tok:' + m.split('>')[0][0] for m in missing],
                         dict(sig=r['sig'], mode=mode, truth=tr, missing=missing,
                              traces={s: [e['origins'] for e in es] for s, es in by_sink.items()}), cfg=mode)
            if tr:
                dump.write(json.dumps(dict(atoms=r['atoms'], cfg=mode, failed=failed, sig=r['sig'])) + '\n')
        if len(samples) < 5 and r['idx'] % 700 == 11:
            samples.append(dict(sig=r['sig'], native_origins=tr, eager_entries=r['runs'][0].get('entries')))
    dump.close()
    rep.cov = dict(states=sum(x['Execs'] for x in truth.values()), transitions=max(1, sum(x['Branches'] for x in truth.values())),
                   traces_validated_against_impl=wf_checked, evaluations=evals, distinct_nontrivial=nontriv,
                   rule='case = (program, eager|on-demand); non-trivial = program in which some origin token natively reaches a '
                        'backtrace point; traces_validated_against_impl = reported traces checked for well-formedness',
                   programs=len(truth), reported_traces=ntraces, bounds=t['bounds'], native_truth_hash=thash, samples=samples,
                   worker_deaths=len(dead))
    rep.assumptions = ['origins checked: calls (Source*, Mk*); constants and parameters are not tracked natively',
                       'connectedness check is liberal: consecutive nodes must share a summary edge unless both are of an inter-procedural kind']
    return rep.finish(exhaustive=True)

"""C13 — with escape analysis on, concurrency cannot hide a flow silently (engines P + S).
Subjects: 19 sharing mechanisms (pointer passed to go, global, global object, channel of values, channel of pointers,
shared map, shared slice, interface holding a pointer, nested object, closure stored in a shared struct, pointer to a
local) x 6 writer/reader placements x {no sync, join through a channel, mutex} x {passed as argument, captured}.
One description, two renderings: the plain Go program is analysed (use-escape-analysis: true); the shim rendering runs
under the controlled scheduler where go statements, channel/mutex operations and every shared access are scheduling
points, and ALL interleavings up to the preemption bound are executed. Oracle: a (source, sink) pair observed in some
explored execution must be reported as a taint flow, or the source must be reported as escaping."""
import sys
sys.path.insert(0, '/verif/lib'); sys.path.insert(0, '/verif/checks')
import vlib, concfam


def warm():
    concfam.warm()


def main(tier):
    rep = vlib.Report('C13', tier)
    t, truth, thash, recs, deaths = concfam.load(tier)
    for begin, tail in deaths:
        rep.fail('worker-death ' + begin, ['death'], dict(begin=begin, tail=tail[-800:]))
    execs = trans = states = observed = multi = 0
    samples = []
    capped = []
    for r in sorted(recs, key=lambda r: r['idx']):
        if r.get('load_err'):
            vlib.tool_error(f"subject does not load: {r['sig']}: {r['load_err']}")
        nat = truth[r['idx']]
        execs += nat['Execs']; trans += nat['Transitions']; states += nat['States']
        if nat['Capped']:
            capped.append(r['sig'])
        if nat['Execs'] > 1:
            multi += 1
        obs = set(nat['Flows'] or [])
        flows, esc = set(r['flows'] or []), set(r['escapes'] or [])
        for fl in sorted(obs):
            observed += 1
            src = fl.split('>')[0]
            if r.get('panic'):
                rep.fail(f"{r['sig']} / analyzer panic", r['atoms'] + ['panic'], dict(sig=r['sig'], observed=fl, panic=r['panic'][:600]))
            elif fl not in flows and src not in esc:
                rep.fail(f"{r['sig']} / {fl} observed, neither flow nor escape reported", r['atoms'] + ['silent'],
                         dict(sig=r['sig'], observed_flow=fl, reported_flows=sorted(flows), reported_escapes=sorted(esc),
                              executions=nat['Execs'], program=r.get('acc_lines')))
        if len(samples) < 6 and r['idx'] % 41 == 3:
            samples.append(dict(subject=r['sig'], schedules=nat['Execs'], observed=sorted(obs), flows=sorted(flows), escapes=sorted(esc)))
    rep.cov = dict(states=max(states, 1), transitions=max(trans, 1), traces_validated_against_impl=observed,
                   evaluations=execs, distinct_nontrivial=multi,
                   rule='evaluation = one controlled execution (schedule) of a subject; non-trivial = subject with more than one schedule; '
                        'states = distinct scheduling-point prefixes; traces_validated_against_impl = observed (source,sink) pairs compared with the report',
                   subjects=len(recs), preemption_bound=t['bound'], capped_subjects=capped, native_truth_hash=thash, samples=samples)
    rep.assumptions = ['2-3 goroutines, <=4 operations each; preemption bound as stated (most subjects are exhausted below it)',
                       'the free-running -race conformance pass of the design is not implemented']
    return rep.finish(exhaustive=not capped)

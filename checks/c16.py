"""C16 — the defer analysis computes exactly the possible defer stacks (engines L + P).
Alphabet: statement grammar {defer, if, if/else, for, switch, return, break, continue, goto L, panic}; bound: all
function bodies with <= n statement nodes, nesting <= 3, enumerated completely. Reference (independent of defer.go):
Tarjan SCC over the real SSA CFG for boundedness, explicit-state BFS over (block, stack) for the stack sets at every
normal-exit RunDefers. Second tie: every enumerated function also runs natively under every valuation; the reverse
of the deferred-run log must be a reported stack (and for loop-free functions the sets must be equal)."""
import sys
sys.path.insert(0, '/verif/lib')
import vlib

TIERS = {'quick': dict(bounds='n4d3', horizon=6), 'thorough': dict(bounds='n5d3', horizon=8)}


def warm():
    t = TIERS['quick']
    vlib.native_truth('defers', t['bounds'], t['horizon'], extra=('logs',))


def main(tier):
    t = TIERS[tier]
    rep = vlib.Report('C16', tier)
    vlib.build()
    truth, thash = vlib.native_truth('defers', t['bounds'], t['horizon'], extra=('logs',))
    recs, deaths = vlib.run_shards('defers', ['-bounds', t['bounds']])
    for begin, tail in deaths:
        kind = 'no result within the budget' if 'TIMEOUT' in tail[-200:] else 'worker death'
        rep.fail(f'{begin} / {kind}', ['death'], dict(begin=begin, kind=kind, tail=tail[-600:]))
    if len(recs) + len(deaths) < len(truth) and not any(b.startswith('ABORTED') for b, _ in deaths):
        vlib.tool_error(f'defers records incomplete: {len(recs)} of {len(truth)}')
    states = edges = 0
    bounded = unbounded = multi = native_ok = loopfree_eq = 0
    samples = []
    for r in sorted(recs, key=lambda r: r['idx']):
        states += r['ref_states']
        edges += r['ref_edges']
        atoms = ['fn:' + r['sig']]
        if r.get('mismatch'):
            rep.fail(r['sig'], atoms, dict(sig=r['sig'], mismatch=r['mismatch'], replay=f"vp defers reference vs AnalyzeFunction on body {r['sig']}"))
        if r['bounded']:
            bounded += 1
        else:
            unbounded += 1
        if r['max_set'] >= 2:
            multi += 1
        nat = truth[r['idx']]
        logs = [l for l in (nat.get('Logs') or []) if not l.endswith('!p')]
        executed = {','.join(reversed(l.split(','))) if l else '' for l in logs}
        if r['bounded'] and not r.get('mismatch') and r['exits'] > 0:
            reported = set(r['stacks'] or [])
            miss = sorted(executed - reported)
            if miss:
                rep.fail(r['sig'] + ' / native', atoms, dict(sig=r['sig'], executed_stacks=sorted(executed), reported=sorted(reported),
                                                           missing=miss, note='a stack produced by a real execution is not reported'))
            else:
                native_ok += 1
            loopfree = 'for{' not in r['sig'] and 'g;' not in r['sig']
            if loopfree and not nat['Capped']:
                if executed != reported:
                    rep.fail(r['sig'] + ' / native-exact', atoms, dict(sig=r['sig'], executed_stacks=sorted(executed), reported=sorted(reported),
                                                                     note='loop-free function: reported stacks differ from the executed ones'))
                else:
                    loopfree_eq += 1
        if len(samples) < 5 and r['idx'] % 1777 == 5:
            samples.append(dict(body=r['sig'], bounded=r['bounded'], reported_stacks=r['stacks'], native_logs=logs))
    rep.cov = dict(states=states, transitions=edges, traces_validated_against_impl=native_ok,
                   evaluations=len(recs), distinct_nontrivial=multi,
                   rule='one case per enumerated function body (canonical statement signature); non-trivial = function with >=2 '
                        'distinct stacks at some normal exit; states/transitions = reference (block,stack) states / CFG edges followed',
                   functions=len(recs), bounded=bounded, unbounded=unbounded, loop_free_exact_equalities=loopfree_eq,
                   native_executions=sum(x['Execs'] for x in truth.values()), bounds=t['bounds'], native_truth_hash=thash, samples=samples)
    rep.assumptions = ['functions beyond the node/nesting bound are not covered (the "sampled beyond" clause is not implemented: sampling is outside this family)',
                       'goto is always guarded by an opaque condition; deferred callees are opaque']
    return rep.finish(exhaustive=True)
